# Table of checks, exec'd by ./check.  reg(id, go-test-run-regex, quick=(rapid checks, shards, timeout s), thorough=(...), ...)
NOT_APPLICABLE = []

reg("C18", "^TestC18$", q=(3000, 1, 300), t=(20000, 16, 1500),
    technique="property-based testing: odometer-exhaustive small-scope enumeration + rapid random sequences against an integer-arithmetic specification",
    text="Exploration: the real EpochNotifierPerBlock.Start is driven block by block; its published events are compared with an "
         "independent integer specification (one event per epoch with a qualifying seen block, at the first such block). "
         "All N<=3 (thorough 4) windows exhaustively plus random large parameters.",
    note="Trusted: the 15-line integer specification in c18_test.go; duplicate-block barrier assumes a repeated block is a no-op (it is part of the property: at most one event per epoch).",
    design="§3 C18")
