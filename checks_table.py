# Table of checks, exec'd by ./check.  reg(id, go-test-run-regex, quick=(rapid checks, shards, timeout s), thorough=(...), ...)
NOT_APPLICABLE = []

reg("C18", "^TestC18$", q=(3000, 1, 300), t=(20000, 16, 1500), fuzz=("FuzzC18", 120),
    technique="property-based testing: odometer-exhaustive small-scope enumeration + rapid random sequences, a quarter of them also through the notifier's real subscription channels (+ native coverage-guided fuzzing of the same property through rapid.MakeFuzz in the thorough tier) against an exact (big-integer) specification, epochs from 1 block to 2^62 blocks",
    text="Exploration: the real EpochNotifierPerBlock.Start is driven block by block; its published events are compared with an "
         "independent integer specification (one event per epoch with a qualifying seen block, at the first such block). "
         "All N<=3 (thorough 4) windows exhaustively plus random large parameters.",
    note="Trusted: the 15-line integer specification in c18_test.go; duplicate-block barrier assumes a repeated block is a no-op (it is part of the property: at most one event per epoch).",
    design="§3 C18")

reg("C19", "^TestC19(FEP)?$", q=(4000, 1, 300), t=(40000, 16, 1500), fuzz=("FuzzC19", 120),
    technique="property-based testing: exhaustive boundary triples + rapid random triples + native coverage-guided fuzzing, oracle = big-int bit-layout formula and cross-carrier equality",
    text="Exploration: encoder/decoder compared with the contract's bit layout; the same value is read back from every carrier "
         "(certificate exit, PP/FEP commitments, Agglayer wire message and prover request through aggkit's real gRPC clients over "
         "a unix socket, optimistic commitment). 162 boundary triples exhaustively, thousands at random, native fuzzing in thorough.",
    note="Trusted: ref.GlobalIndex (3 lines of big-int arithmetic), protobuf/grpc libraries. Non-canonical on-chain values (bits above 64, rollup bits with the flag set) are outside the stated domain.",
    design="§3 C19")

reg("C17", "^TestC17$", q=(4000, 1, 300), t=(50000, 16, 1800), fuzz=("FuzzC17", 180),
    technique="property-based testing: rapid-generated event layouts (block ranges from a few blocks to 2^32+1, 2^33 and 3*2^31 blocks) and limits against a maximal-prefix / sub-sequence specification; exhaustive endpoint pairs + random pairs for Gap against big-int arithmetic; native coverage-guided fuzzing of the same property through rapid.MakeFuzz in the thorough tier",
    text="Exploration: the exported pure entry points (GetCertificateBuildParamsInternal->limitCertSize, Range, AdaptCertificate, Gap) "
         "are fed generated layouts/limits and compared with an executable specification (same first block, largest permitted "
         "last block, exactly the events of the kept blocks in order; big-int gap).",
    note="Trusted: EstimatedSize as the definition of size (its monotonicity is checked); refusals of the last-block limiter are accepted as policy, only wrong cuts are violations.",
    design="§3 C17")

reg("C01", "^TestC01", q=(600, 1, 600), t=(4000, 16, 3000), batch=300,
    technique="property-based testing: rapid-generated deposit histories (fields, block partitions, restarts, synthetic high-index frontiers) against a reference deposit-contract frontier; differential run against the real bridge contract in an in-process EVM; scripted-chain leg through the public NewL1 with several deposits per transaction",
    text="Exploration: the real bridge processor (and, in the EVM leg, the public NewL1 syncer on a simulated chain with the real "
         "PolygonZkEVMBridgeV2 bytecode) is compared, deposit by deposit, with the contract's algorithm/contract itself.",
    note="Trusted: ref.Frontier/BridgeLeaf (mirrors of DepositContractBase/getLeafValue, tied to the real contract by the EVM leg); go-ethereum simulated backend; indices >= 2^16 only via synthetic pre-states.",
    design="§3 C01")

reg("C04", "^TestC04$", q=(150, 4, 900), t=(1500, 16, 3600), batch=150,
    technique="property-based testing, metamorphic: rapid-generated histories with reorgs vs a twin store fed only the surviving blocks, compared over a reflection-enumerated query battery and table dumps; enumerated faults inside the reorg transaction; client-abandoned queries (cancelled contexts) before reorgs and concurrent queries during them; new forks whose first deposit count is wrong (ahead by 1..6 or by exactly what the reorg removed, 0 again, the last stored count) judged against the twin's answer",
    text="Exploration: for each of the three stores, generated histories (all event kinds) with nested reorgs and new-fork "
         "continuations; after every reorg and continuation the real store must answer every exported query, and hold every table, "
         "exactly like a fresh store that only ever saw the surviving blocks.",
    note="Trusted: the code itself on the shorter history (twin) + SQLite. Look-ups keyed by root hashes that only existed on the dropped fork are outside the domain (rht is documented as never pruned). Known findings F3/F4 are excluded by signature and counted.",
    design="§3 C04")

reg("C07", "^TestC07(Driver)?$", q=(40, 4, 900), t=(400, 16, 3600), batch=40, level="fault_enumeration",
    technique="property-based testing with enumerated fault injection: rapid-generated histories; SQL-trigger faults at every row-writing statement of the target block's transaction in turn, contexts cancelled at an enumerated observation point (scripted context), unreadable node tables, failing COMMITs (deferred foreign key), restarts; driver-level leg (public l1infotreesync.New on a scripted chain with a storage fault on one block's tree root or on the block row of any block, block rows compared with a fault-free twin); oracle = pre-block snapshot equality and a fault-free twin run",
    text="Fault enumeration: for generated histories of the three stores, each storage statement of the target block's transaction "
         "is failed in turn (trigger from a second connection); after the failure nothing of the block is visible, after the retry "
         "and the remaining blocks every table, query, root and proof equals a fault-free twin.",
    note="Trusted: SQLite crash atomicity (a kill inside a transaction = rollback); the twin run; DELETEs matching no row cannot be failed.",
    design="§3 C07")

reg("C08", "^TestC08$", q=(200, 4, 900), t=(1000, 16, 3600), batch=200,
    technique="property-based testing: rapid-generated tree contents (with reorgs and restarts); every (recorded root, position) pair for small trees, sampled for large; oracle = reference verifyMerkleProof recomputation and reference roots",
    text="Exploration: proofs and leaf look-ups served by the real stores for the exit tree, L1 info tree and rollup exit tree "
         "are recomputed with the reference verifier and must hit exactly the requested (historical) root, which must equal the reference root of that version.",
    note="Trusted: ref.VerifyProof / ref.Frontier / ref.Sparse (mirrors of the contracts, self-checked and tied to the real contract in C01/C11 EVM legs).",
    design="§3 C08")

reg("C14", "^TestC14(Driver)?$", q=(150, 4, 900), t=(1000, 16, 3600), batch=150,
    technique="property-based testing: rapid-generated halting histories and reorg points; entry points enumerated by reflection; oracle = explicit ErrInconsistentState + zero data while halted, cleared only by a row-deleting reorg; after a cleared halt a second generated inconsistency must halt the syncer again",
    text="Exploration: every exported error-returning method of *BridgeSync and *L1InfoTreeSync (reflection, so new entry points are "
         "included) is called while the real processor is halted by a generated inconsistency; reorg points decide whether the halt must persist or clear.",
    note="Trusted: reflection-based argument synthesis (a parameter type without a pool makes the harness fail loudly); GetLastReorgEvent excluded by name (reads the reorg detector, not the store).",
    design="§3 C14")

reg("C11", "^TestC11", q=(250, 4, 900), t=(2000, 16, 3600), batch=250,
    technique="property-based testing: rapid-generated L1 histories against reference models of GlobalExitRootV2 / rollup manager exit tree; differential run against the real contracts in an in-process EVM",
    text="Exploration: the real L1 info tree processor (and, in the EVM leg, the public l1infotreesync.New on a simulated chain "
         "with the real GlobalExitRootV2 contract and the repository's VerifyBatchesMock) is compared leaf by leaf, root by root and "
         "rollup by rollup with the contracts' algorithms.",
    note="Trusted: ref.L1InfoLeaf/Frontier/Sparse (mirrors of the Solidity code, tied to the real contracts by the EVM leg); simulated backend.",
    design="§3 C11")

reg("C05", "^TestC05$", q=(300, 4, 900), t=(3000, 16, 3600), batch=300,
    technique="property-based testing: odometer-exhaustive enumeration of small chains x chunk x pointer scripts + rapid random chains/configs/RPC faults/appender faults/restarts; oracle = history invariant over the ProcessBlock calls recorded from the real EVMDownloader+EVMDriver on a scripted chain",
    text="Exploration: the real downloader and driver run on a deterministic scripted chain whose tip/safe/finalized pointers move at "
         "the node's own polls; the recorded hand-overs must be strictly increasing, carry exactly each block's watched non-removed "
         "logs in order, never pass an undelivered event block, and cover every event block once the node is idle.",
    note="Trusted: fakechain (honours range/address filters like a node). Quiescence = script finished and >=3 consecutive tip polls without other RPC; 'missing' is only reported if still missing while idle; a 30 s cap is inconclusive (exit 2). Hash-mismatch retries (mutating chain) belong to C06.",
    design="§3 C05")

reg("C16", "^TestC16(FEP)?$", q=(80, 4, 900), t=(800, 16, 3600), batch=120,
    technique="property-based testing: rapid-generated L2 GER insert/remove histories (out-of-order indexes, re-injected roots, thousands of event-less blocks between two polls), polling cadences, a lagging L1 info syncer, syncers following the latest or the safe block, an L2 GER contract that stores timestamps or block hashes, and restarts through the public lastgersync.New (PP mode; a quarter of the budget in FEP mode, where the scripted chain answers the downloader's eth_call to the L2 GER contract) + real reorg detector on a scripted chain; oracle = reference set of live injected GERs",
    text="Exploration: the public constructor's syncer (real PP downloader, driver, processor, reorg detector) follows a scripted L2 "
         "chain whose tip advances by 1..10 blocks between polls, with restarts; at quiescence every index query must return a live "
         "injected GER with index >= X whenever one exists.",
    note="Trusted: fakechain; the model L1InfoTreeQuerier. Quiescence = cadence script finished and >=3 consecutive tip polls without a range query (PP) / contract call (FEP); a mismatch is reported only if it persists for 3 s while idle; 120 s cap = inconclusive. Forked L2 chains are covered at store level by C04 and at driver level by C06.",
    design="§3 C16")

reg("C20", "^TestC20(E2E)?$", q=(3000, 4, 600), t=(30000, 16, 3000), fuzz=("FuzzC20", 180),
    technique="property-based testing: grammar-generated call trees with the tracer's frame types and batch frames of more than a thousand calls (rapid) + native coverage-guided fuzzing through a structured byte decoder; end-to-end leg through the public NewL2 incl. a transaction re-executed on a new fork during the download and transient debug_traceTransaction failures; oracle = recursive specification of the live matching call",
    text="Exploration: generated debug_traceTransaction call trees (both ABI generations packed with the real contract ABIs, reverted "
         "frames anywhere, decoys) are fed to the real setClaimCalldata/findCall/decode path; the recorded details must be those of a "
         "live matching bridge call, or an error with the claim untouched.",
    note="Trusted: go-ethereum ABI packer; the 15-line recursive specification. Domain: every call addressed to the bridge is a claim call.",
    design="§3 C20")

reg("C02", "^TestC02(FEP)?$", q=(30, 8, 1200), t=(1500, 16, 5400), batch=60,
    technique="property-based testing, model-based/stateful: odometer-exhaustive schedules up to a depth bound + rapid random walks driving the real aggsender loop iteration by iteration against a model Agglayer; oracle = model's submission checks + exactly-once settled content",
    text="Exploration: the real aggsender (aggsender.New, real PP flow, queriers, status checker, SQLite storage, ECDSA signer; real "
         "bridge and L1 info stores fed by a generated joint world) is stepped one loop iteration at a time under generated schedules; "
         "every submission is checked by the model Agglayer (height, previous exit root, first block, no undecided predecessor, retry "
         "keeps height and first block) and the settled certificates must contain every exit and claim exactly once in order.",
    note="Trusted: the model Agglayer (state machine + checks), the joint world generator (tied to ref models), SQLite. A failed Agglayer call = rejected without effect (lost responses: C13).",
    design="§3 C02")

reg("C03", "^TestC03$", q=(100, 4, 1200), t=(1500, 16, 5400), batch=100,
    technique="property-based testing, model-based: rapid-generated joint worlds and schedules through the real aggsender; oracle = recomputation of the new exit root from the wire-level exits on the model Agglayer's own tree + field-by-field equality with the world's events of the encoded block range",
    text="Exploration: every certificate the real flow builds and submits is re-derived by the model Agglayer from its own copy of the "
         "exit tree and from the ground-truth L2 history (exits, imported exits, order, every field, metadata block range).",
    note="Trusted: ref.Frontier/BridgeLeaf, the joint world generator, the model Agglayer's tree (advanced on settlement only).",
    design="§3 C03")

reg("C09", "^TestC09$", q=(100, 4, 1200), t=(1500, 16, 5400), batch=100,
    technique="property-based testing, model-based: rapid-generated L1 info/verified-batch histories, claim histories and finalized-pointer positions through the real aggsender; oracle = reference verification of every enclosed proof against the root the certificate names",
    text="Exploration: for every imported exit of every submitted certificate the L1 leaf, its proof to the named root, the leaf count, "
         "the GER relation and the exit's own proofs (leaf->MER, or leaf->LER->RER) are verified with the reference verifier against the ground-truth L1 world.",
    note="Trusted: ref.VerifyProof/L1InfoLeaf/Sparse; world generator computes valid claim proofs from the reference trees.",
    design="§3 C09")

reg("C10", "^TestC10(FEP)?$", q=(60, 4, 1200), t=(800, 16, 5400), batch=60,
    technique="property-based testing: certificates from the real PP and aggchain-prover flows over rapid-generated worlds (incl. restarts under a rotated signer key), through aggkit's real gRPC client (unix socket) and real storage; oracle = commitment recomputed from the wire message + ecrecover, 3-way field equality (in memory / wire / stored JSON), metamorphic single-field perturbations of every covered field (PP and FEP commitments, identity hash)",
    text="Exploration: every certificate the node submits is captured three times (object handed to the client, decoded protobuf "
         "message at an in-process server, JSON read back from SQLite); the signature must be the configured signer's over the "
         "commitment recomputed from the wire, all covered fields must agree, and perturbing any covered field must change the commitment.",
    note="Trusted: protobuf/grpc libraries, go-ethereum ecrecover, the re-implemented commitment formulas (documented in aggkit; the literal vectors in the repo's tests pin them to the Agglayer's).",
    design="§3 C10")

reg("C13", "^TestC13$", q=(150, 4, 1500), t=(600, 16, 5400), batch=40, level="fault_enumeration",
    technique="property-based testing with enumerated crash/fault injection: rapid-generated prefixes and crash plans (death before/after submit, after store, DB loss) with restart through the real start-up reconciliation and real gRPC client; SQL-trigger faults at every statement of the save transaction; oracle = model Agglayer's chain checks after restart + bounded progress after the final drain + table snapshot equality",
    text="Fault enumeration: the real aggsender is killed at each externally visible point of the send path or loses its database, "
         "is restarted (aggsender.New + start-up reconciliation over the real gRPC client against the model Agglayer in every "
         "Agglayer-side state) and must then submit only certificates with the right height, previous exit root and first block; "
         "each statement of SaveLastSentCertificate's transaction is failed in turn and must leave the table unchanged.",
    note="Trusted: model Agglayer's notion of latest settled / latest pending header; a death is a panic recovered at the step boundary (no DB transaction open there); SQLite crash atomicity.",
    design="§3 C13")

reg("C15", "^TestC15$", q=(200, 4, 900), t=(3000, 16, 3600), batch=300,
    technique="property-based testing, stateful: rapid-generated L1 histories and schedules (finality, sparse syncer progress, L1 reorgs above the finalized block, ticks, transient faults, external injections, client-abandoned queries before reorgs, batch verifications interleaved with the info updates) over the real AggOracle tick body and real L1 info store; oracle = safety of each injection + bounded progress; a store that refuses the next valid block after a reorg is judged",
    text="Exploration: the body of the oracle's loop iteration (processLatestGER + error handling, sticky target held by the harness) "
         "runs against the real L1 info store fed block by block ('syncer behind' = blocks not fed yet), a scripted L1 client and a "
         "recording model of the L2 GER contract.",
    note="Trusted: fakechain finality pointer, the recording chain sender. Liveness only as bounded progress at fault-free ticks.",
    design="§3 C15")

reg("C12", "^TestC12$", q=(120, 4, 900), t=(800, 16, 3600), batch=60,
    technique="property-based testing: rapid-generated joint L1/L2 worlds; all (bridge, covering L1 info leaf) pairs for small worlds through the real gin handlers over the real stores, also across an L1 reorg between two rounds of requests and while the L1 bridge syncer is behind the L1 info syncer, request numbers in canonical or zero-padded decimal; oracle = reference verifyMerkleProof chain and a coverage predicate",
    text="Exploration: /claim-proof, /l1-info-tree-index and /injected-l1-info-leaf are invoked through the real handlers (real "
         "parameter parsing, real JSON) over real bridge, L1 info and injected-GER stores fed by a generated world; proofs must hash "
         "the bridge leaf to the MER, or to the LER and on to the RER, of the requested L1 info leaf; a returned index must cover the bridge.",
    note="Trusted: ref.VerifyProof/Frontier/Sparse; world generator keeps the contracts' 'every verification is followed by an info update' discipline.",
    design="§3 C12")

reg("C06", "^TestC06(Stop)?$", q=(25, 4, 1500), t=(300, 16, 7200), batch=25,
    technique="property-based testing: rapid-generated chains and fork operations bound to RPC-count triggers, some applied atomically between two consecutive RPCs with a finality jump (plus restarts, changed chunk size, syncers following the latest or the safe block) through the real reorg detector + public l1infotreesync.New on a scripted chain, plus a steered stop-and-switch-back scenario per case (storage fault on a tracked block, stop, fork at that block, restart, switch back to the first fork before the detector's first check); oracle = convergence to the reference of the final canonical chain at harness-detected quiescence + rewind bounds read from the detector's reorg_event table",
    text="Exploration: the real reorg detector, downloader, driver and L1 info processor follow a scripted chain that forks above the "
         "finalized frontier at generated moments; when the chain stops changing and the node is idle its leaves must be those of "
         "the canonical chain; isolated forks of delivered blocks must produce a rewind at or before the first replaced block; no rewind without a replaced delivered block.",
    note="Trusted: fakechain; quiescence = >=30 tip polls and >=3 detector sweeps without a log query; 'idle and different' for 3 s is a violation, as is a detector that has not swept (or a node that has made no RPC) for 10 s while the scripted chain answers every request; a 60-120 s cap is inconclusive. The Go scheduler inside the node is not controlled: schedule-dependent defects are found only statistically (the detector race F7 of DESIGN §8.3 was found this way by the thorough tier and is fixed); a case that fails once and passes on rapid's re-run is still reported, with its history.",
    design="§3 C06")
