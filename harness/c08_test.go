package harness

import (
	"fmt"
	"testing"

	"github.com/agglayer/aggkit/tree"
	"github.com/ethereum/go-ethereum/common"
	"pgregory.net/rapid"

	"verifharness/ev"
	"verifharness/ref"
)

// C08 — every Merkle proof served verifies against the root it was asked for.

const c08Rule = "case = (tree kind in {exit tree, L1 info tree, rollup exit tree}, generated contents over several blocks with optional " +
	"reorg+new fork and restart, then ALL (recorded root i, position j<=i) pairs for small trees / a generated sample incl. " +
	"positions 0, i/2, i for large ones); oracle = reference verifyMerkleProof recomputation must hit exactly the requested root, " +
	"which must be the reference root of that version; leaf look-ups must return the value last written as of that root; " +
	"non-trivial = a proof against a root that is not the latest one, for a position > 0; distinct = hash of (kind, sizes, pair)"

func c08Pairs(rt *rapid.T, n int) [][2]int {
	var ps [][2]int
	if n <= 10 {
		for i := 0; i < n; i++ {
			for j := 0; j <= i; j++ {
				ps = append(ps, [2]int{i, j})
			}
		}
		return ps
	}
	seen := map[[2]int]bool{}
	add := func(i, j int) {
		if !seen[[2]int{i, j}] {
			seen[[2]int{i, j}] = true
			ps = append(ps, [2]int{i, j})
		}
	}
	for _, i := range []int{n - 1, n / 2, 1, 0} {
		add(i, 0)
		add(i, i/2)
		add(i, i)
	}
	for k := 0; k < 40; k++ {
		i := rapid.IntRange(0, n-1).Draw(rt, "rootIdx")
		add(i, rapid.IntRange(0, i).Draw(rt, "pos"))
	}
	return ps
}

func c08Prop(rt *rapid.T, rec *ev.Recorder, maxBlocks int) {
	kind := rapid.SampledFrom([]string{"exit", "l1info", "rollup"}).Draw(rt, "tree")
	k := kL1Info
	if kind == "exit" {
		k = kBridge
	}
	opts := genOpts{forceMulti: true, maxEvents: 6, noDestroy: true}
	n0 := rapid.IntRange(1, maxBlocks).Draw(rt, "nBlocks")
	hist := genHistory(rt, k, nil, n0, opts)
	path, clean := tmpDB("c08")
	defer clean()
	S, err := openStore(k, path)
	if err != nil {
		fatal(rt, "open: %v", err)
	}
	defer func() { S.close() }()
	// a client may ask for a proof against a root this node has not recorded yet (it learned the root from a node that is
	// ahead); whatever the node answers then, it must serve the right proof once it has recorded the root
	future := worldOf(k, hist)
	early := rapid.IntRange(0, len(hist)).Draw(rt, "earlyRequestsAfterBlock")
	for bi, b := range hist {
		if bi == early && rapid.IntRange(0, 2).Draw(rt, "earlyRequests") == 0 {
			switch kind {
			case "exit":
				for q := 0; q < 4 && len(future.exitRoots) > 0; q++ {
					i := rapid.IntRange(0, len(future.exitRoots)-1).Draw(rt, "earlyRoot")
					_, _ = S.br.GetProof(bg, uint32(rapid.IntRange(0, i).Draw(rt, "earlyPos")), future.exitRoots[i])
				}
			case "l1info":
				for q := 0; q < 4 && len(future.infoRoots) > 0; q++ {
					i := rapid.IntRange(0, len(future.infoRoots)-1).Draw(rt, "earlyRoot")
					_, _ = S.l1.GetL1InfoTreeMerkleProofFromIndexToRoot(bg, uint32(rapid.IntRange(0, i).Draw(rt, "earlyPos")), future.infoRoots[i])
				}
			default:
				for _, v := range future.rollupHist {
					for id := range v.Leaves {
						_, _ = S.l1.GetRollupExitTreeMerkleProof(bg, id, v.Root)
					}
				}
			}
			rec.Class("with_requests_against_roots_not_recorded_yet")
		}
		if err := S.process(b); err != nil {
			fatal(rt, "store refused valid block %s: %v", b.brief(), err)
		}
	}
	key := fmt.Sprintf("%s|%d|", kind, n0)
	if rapid.IntRange(0, 2).Draw(rt, "reorg") == 0 && len(hist) > 1 {
		at := rapid.IntRange(1, len(hist)-1).Draw(rt, "reorgAt")
		if err := S.reorg(hist[at].Num); err != nil {
			fatal(rt, "reorg: %v", err)
		}
		hist = hist[:at]
		cont := genHistory(rt, k, hist, rapid.IntRange(0, 4).Draw(rt, "nCont"), opts)
		for _, b := range cont {
			if err := S.process(b); err != nil {
				fatal(rt, "store refused valid new-fork block %s: %v", b.brief(), err)
			}
		}
		hist = append(hist, cont...)
		key += fmt.Sprintf("reorg%d+%d|", at, len(cont))
		rec.Class("with_reorg")
	}
	if rapid.IntRange(0, 2).Draw(rt, "restart") == 0 {
		if err := S.restart(); err != nil {
			fatal(rt, "restart: %v", err)
		}
		key += "R|"
		rec.Class("with_restart")
	}
	w := worldOf(k, hist)
	nt := false
	checked := 0
	verify := func(what string, leaf common.Hash, proof [32]common.Hash, idx uint32, want common.Hash) {
		got := ref.VerifyProof(leaf, proof, idx)
		if got != want {
			fatal(rt, "%s: proof for position %d hashes to %s, not to the requested root %s", what, idx, got, want)
		}
		if c := tree.CalculateRoot(leaf, proof, idx); c != got {
			fatal(rt, "%s: tree.CalculateRoot disagrees with the contract's verifyMerkleProof (%s vs %s)", what, c, got)
		}
		checked++
	}
	switch kind {
	case "exit":
		n := len(w.exitRoots)
		for _, p := range c08Pairs(rt, n) {
			i, j := uint32(p[0]), uint32(p[1])
			r, err := S.br.GetExitRootByIndex(bg, i)
			if err != nil || r.Hash != w.exitRoots[i] {
				fatal(rt, "exit tree: recorded root %d = %s (%v), reference %s", i, r.Hash, err, w.exitRoots[i])
			}
			proof, err := S.br.GetProof(bg, j, r.Hash)
			if err != nil {
				fatal(rt, "exit tree: GetProof(%d, root %d): %v", j, i, err)
			}
			verify(fmt.Sprintf("exit tree root %d/%d", i, n-1), w.exitLeaves[j], proof, j, r.Hash)
			if int(i) != n-1 && j > 0 {
				nt = true
			}
		}
		key += fmt.Sprint(n)
	case "l1info":
		n := len(w.infoRoots)
		for _, p := range c08Pairs(rt, n) {
			i, j := uint32(p[0]), uint32(p[1])
			r, err := S.l1.GetL1InfoTreeRootByIndex(bg, i)
			if err != nil || r.Hash != w.infoRoots[i] {
				fatal(rt, "L1 info tree: recorded root %d = %s (%v), reference %s", i, r.Hash, err, w.infoRoots[i])
			}
			proof, err := S.l1.GetL1InfoTreeMerkleProofFromIndexToRoot(bg, j, r.Hash)
			if err != nil {
				fatal(rt, "L1 info tree: proof(%d -> root %d): %v", j, i, err)
			}
			leaf, err := S.l1.GetInfoByIndex(bg, j)
			if err != nil || leaf.Hash != w.infoLeaves[j].Hash {
				fatal(rt, "L1 info tree: leaf %d = %v (%v), reference hash %s", j, leaf, err, w.infoLeaves[j].Hash)
			}
			verify(fmt.Sprintf("L1 info tree root %d/%d", i, n-1), leaf.Hash, proof, j, r.Hash)
			if i == j {
				p2, r2, err := S.l1.GetL1InfoTreeMerkleProof(bg, j)
				if err != nil || r2.Hash != r.Hash {
					fatal(rt, "L1 info tree: GetL1InfoTreeMerkleProof(%d) root %s (%v), want %s", j, r2.Hash, err, r.Hash)
				}
				verify(fmt.Sprintf("L1 info tree own-root proof %d", j), leaf.Hash, p2, j, r.Hash)
			}
			if int(i) != n-1 && j > 0 {
				nt = true
			}
		}
		key += fmt.Sprint(n)
	case "rollup":
		nv := len(w.rollupHist)
		if nv > 0 {
			last, err := S.l1.GetLastRollupExitRoot(bg)
			if err != nil || last.Hash != w.rollupHist[nv-1].Root {
				fatal(rt, "rollup exit tree: last root %s (%v), reference %s", last.Hash, err, w.rollupHist[nv-1].Root)
			}
		}
		for vi, v := range w.rollupHist {
			if nv > 8 && vi != 0 && vi != nv-1 && vi != nv/2 && rapid.IntRange(0, 3).Draw(rt, "skipVersion") != 0 {
				continue
			}
			for id, val := range v.Leaves {
				proof, err := S.l1.GetRollupExitTreeMerkleProof(bg, id, v.Root)
				if err != nil {
					fatal(rt, "rollup exit tree: proof(rollup %d, version %d): %v", id, vi, err)
				}
				verify(fmt.Sprintf("rollup exit tree version %d/%d", vi, nv-1), val, proof, id-1, v.Root)
				got, err := S.l1.GetLocalExitRoot(bg, id, v.Root)
				if err != nil || got != val {
					fatal(rt, "rollup exit tree: GetLocalExitRoot(rollup %d, version %d) = %s (%v), last value written as of that root is %s", id, vi, got, err, val)
				}
				if vi != nv-1 && len(v.Leaves) > 1 {
					nt = true
				}
			}
		}
		key += fmt.Sprint(nv)
	}
	rec.Case(nt, key)
	rec.ClassN("proofs_verified", checked)
	rec.Class("tree_" + kind)
	if nt && rec.WantSample() {
		rec.Sample(map[string]any{"tree": kind, "blocks": briefs(hist), "proofs_checked": checked})
	}
}

func TestC08(t *testing.T) {
	rec := ev.For("C08", c08Rule)
	mb := 14
	if thorough() {
		mb = 60
	}
	rapid.Check(t, func(rt *rapid.T) { c08Prop(rt, rec, mb) })
}
