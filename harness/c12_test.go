package harness

import (
	"encoding/json"
	"fmt"
	"math/big"
	"net/http/httptest"
	"testing"
	"time"

	"github.com/agglayer/aggkit/bridgeservice"
	bridgetypes "github.com/agglayer/aggkit/bridgeservice/types"
	"github.com/agglayer/aggkit/bridgesync"
	"github.com/agglayer/aggkit/l1infotreesync"
	"github.com/agglayer/aggkit/lastgersync"
	"github.com/agglayer/aggkit/log"
	aggkitsync "github.com/agglayer/aggkit/sync"
	"github.com/ethereum/go-ethereum/common"
	"github.com/gin-gonic/gin"
	"pgregory.net/rapid"

	"verifharness/ev"
	"verifharness/ref"
)

// C12 — the bridge API's claim flow yields proofs the bridge contract would accept.

const c12Rule = "case = joint L1/L2 history (bridges on mainnet and on the node's own network, batch verifications for this and foreign " +
	"rollups each followed by the info update the contracts emit, info updates at generated points, several per block), then " +
	"ALL (bridge, L1 info leaf) pairs for small worlds / a sample for large ones through the real HTTP handlers over the real " +
	"stores; oracle = reference verifyMerkleProof: leaf->MER (mainnet) or leaf->LER->RER of that L1 info leaf; index look-up: " +
	"HTTP 200 implies the returned leaf's exit roots cover the bridge, no covering leaf implies non-200; non-trivial = a bridge " +
	"whose first covering leaf is neither the first nor the last leaf; distinct = hash of the world shape"

type c12World struct {
	s1, s2       *bridgesync.BridgeSync
	si           *l1infotreesync.L1InfoTreeSync
	sg           *lastgersync.LastGERSync
	mainLeaves   []common.Hash
	l2Leaves     []common.Hash
	foreignHad   map[uint32]map[common.Hash]bool // exit roots each foreign rollup has reported
	lax          bool                            // verifications are not always followed by an L1 info update
	initialRoot  common.Hash                     // mainnet / rollup exit root the GER contract reports before the first deposit / verification
	mainRoots    []common.Hash
	l2Roots      []common.Hash
	mainFront    ref.Frontier
	l2Front      ref.Frontier
	verifiedL2   int // our L2 deposits covered by the last verified LER
	rollupLeaves map[uint32]common.Hash
	infos        []c12Info
	l1Num, l2Num uint64
	pendingL1    []interface{}
	pendingL1Br  []interface{}
	pos          uint64
	injected     map[common.Hash]uint32
	cleanups     []func()
	shape        string
	prevL1       []bridgesync.Bridge
	prevL2       []bridgesync.Bridge
	early        func(info, dep int) // when set: a request made while the L1 bridge syncer is one block behind
}

// c12L1Snap: the L1 side of the world at an L1 block boundary (what an L1 reorg goes back to).
type c12L1Snap struct {
	mainLeaves, mainRoots []common.Hash
	mainFront             ref.Frontier
	verifiedL2            int
	rollupLeaves          map[uint32]common.Hash
	foreignHad            map[uint32]map[common.Hash]bool
	infos                 []c12Info
	l1Num                 uint64
	prevL1                []bridgesync.Bridge
}

func (w *c12World) snapshotL1() c12L1Snap {
	sn := c12L1Snap{mainLeaves: append([]common.Hash{}, w.mainLeaves...), mainRoots: append([]common.Hash{}, w.mainRoots...), mainFront: w.mainFront,
		verifiedL2: w.verifiedL2, rollupLeaves: map[uint32]common.Hash{}, foreignHad: map[uint32]map[common.Hash]bool{}, infos: append([]c12Info{}, w.infos...),
		l1Num: w.l1Num, prevL1: append([]bridgesync.Bridge{}, w.prevL1...)}
	for k, v := range w.rollupLeaves {
		sn.rollupLeaves[k] = v
	}
	for k, m := range w.foreignHad {
		sn.foreignHad[k] = map[common.Hash]bool{}
		for h := range m {
			sn.foreignHad[k][h] = true
		}
	}
	return sn
}

func (w *c12World) restoreL1(sn c12L1Snap) {
	w.mainLeaves, w.mainRoots, w.mainFront, w.verifiedL2 = sn.mainLeaves, sn.mainRoots, sn.mainFront, sn.verifiedL2
	w.rollupLeaves, w.foreignHad, w.infos, w.l1Num, w.prevL1 = sn.rollupLeaves, sn.foreignHad, sn.infos, sn.l1Num, sn.prevL1
	w.pendingL1, w.pendingL1Br, w.pos = nil, nil, 0
}

type c12Info struct {
	MER, RER  common.Hash
	MainCount int
	L2Count   int // our deposits covered by this leaf's RER
	HasOurLER bool
}

func newC12World() (*c12World, error) {
	w := &c12World{rollupLeaves: map[uint32]common.Hash{}, injected: map[common.Hash]uint32{}, foreignHad: map[uint32]map[common.Hash]bool{}}
	var err error
	mk := func(n string) string {
		p, c := tmpDB(n)
		w.cleanups = append(w.cleanups, c)
		return p
	}
	if w.s1, err = bridgesync.NewVerif(mk("l1bridge"), "l1", 0); err != nil {
		return nil, err
	}
	if w.s2, err = bridgesync.NewVerif(mk("l2bridge"), "l2", jNetID); err != nil {
		return nil, err
	}
	if w.si, err = l1infotreesync.NewVerif(mk("l1info")); err != nil {
		return nil, err
	}
	if w.sg, err = lastgersync.NewVerif(mk("ger")); err != nil {
		return nil, err
	}
	return w, nil
}

func (w *c12World) close() {
	_ = w.s1.VerifClose()
	_ = w.s2.VerifClose()
	_ = w.si.VerifClose()
	_ = w.sg.VerifClose()
	for _, c := range w.cleanups {
		c()
	}
}

func (w *c12World) rer() common.Hash {
	s := ref.NewSparse()
	for id, h := range w.rollupLeaves {
		s.Set(id-1, h)
	}
	return s.Root()
}

func (w *c12World) addInfo() {
	// before the first L1 deposit (first verification) the global exit root contract still holds its initial, all-zero
	// mainnet (rollup) exit root; a third of the worlds use the empty-tree root instead (another deployment history)
	mer := w.initialRoot
	if n := len(w.mainRoots); n > 0 {
		mer = w.mainRoots[n-1]
	}
	rer := w.rer()
	if len(w.rollupLeaves) == 0 {
		rer = w.initialRoot
	}
	if n := len(w.infos); n > 0 && w.infos[n-1].MER == mer && w.infos[n-1].RER == rer {
		return // the contract emits no update for an unchanged GER
	}
	_, ours := w.rollupLeaves[jNetID]
	w.infos = append(w.infos, c12Info{MER: mer, RER: rer, MainCount: len(w.mainLeaves), L2Count: w.verifiedL2, HasOurLER: ours})
	w.pendingL1 = append(w.pendingL1, l1infotreesync.Event{UpdateL1InfoTree: &l1infotreesync.UpdateL1InfoTree{BlockPosition: w.pos, MainnetExitRoot: mer, RollupExitRoot: rer,
		ParentHash: common.BigToHash(big.NewInt(int64(w.l1Num))), Timestamp: 1000 + w.l1Num}})
	w.pos++
	w.shape += "i"
}

func (w *c12World) flushL1() error {
	w.l1Num++
	if w.early != nil && len(w.pendingL1Br) > 0 {
		// the L1 info syncer is ahead of the L1 bridge syncer for a moment, and a client already asks for a claim proof
		// against the newest L1 info leaf (whose mainnet exit root the bridge syncer has not recorded yet); whatever the
		// answer, the requests made once both have the block must be served correctly
		if err := w.si.VerifProcessBlock(bg, aggkitsync.Block{Num: w.l1Num, Hash: common.BigToHash(big.NewInt(int64(w.l1Num) + 100)), Events: w.pendingL1}); err != nil {
			return err
		}
		w.early(len(w.infos)-1, len(w.mainLeaves)-1)
		if err := w.s1.VerifProcessBlock(bg, aggkitsync.Block{Num: w.l1Num, Hash: common.BigToHash(big.NewInt(int64(w.l1Num) + 100)), Events: w.pendingL1Br}); err != nil {
			return err
		}
		w.pendingL1, w.pendingL1Br, w.pos = nil, nil, 0
		w.shape += "!|"
		return nil
	}
	if err := w.s1.VerifProcessBlock(bg, aggkitsync.Block{Num: w.l1Num, Hash: common.BigToHash(big.NewInt(int64(w.l1Num) + 100)), Events: w.pendingL1Br}); err != nil {
		return err
	}
	if err := w.si.VerifProcessBlock(bg, aggkitsync.Block{Num: w.l1Num, Hash: common.BigToHash(big.NewInt(int64(w.l1Num) + 100)), Events: w.pendingL1}); err != nil {
		return err
	}
	w.pendingL1, w.pendingL1Br, w.pos = nil, nil, 0
	w.shape += "|"
	return nil
}

// c12Gen generates `steps` more operations. first: the world-wide choices are drawn; allowInject: L2 injections of L1 info
// leaves may be generated (not on a stretch of L1 history that is going to be reorged away).
func c12Gen(rt *rapid.T, w *c12World, steps int, first, allowInject bool) error {
	if first {
		if rapid.IntRange(0, 2).Draw(rt, "initialExitRoots") == 0 {
			w.initialRoot = ref.EmptyRoot
		}
		// the deployed rollup manager pushes a new global exit root right after every verification; a third of the worlds do
		// not rely on that (a verification's rollup exit root may then be on no L1 info leaf)
		w.lax = rapid.IntRange(0, 2).Draw(rt, "verificationsWithoutInfoUpdate") == 0
	}
	// one deposit in five repeats the fields of an earlier one on the same chain (the leaf does not cover the deposit count)
	prevL1, prevL2 := w.prevL1, w.prevL2
	defer func() { w.prevL1, w.prevL2 = prevL1, prevL2 }()
	for i := 0; i < steps; i++ {
		op := rapid.SampledFrom([]string{"l1dep", "l1dep", "l2dep", "l2dep", "verifyOurs", "verifyForeign", "info", "endL1Block", "endL1Block", "inject"}).Draw(rt, "op")
		if op == "inject" && !allowInject {
			op = "info"
		}
		switch op {
		case "l1dep":
			d := genBridgeOrRepeat(rt, prevL1)
			d.BlockNum, d.BlockPos, d.DepositCount, d.DestinationNetwork = w.l1Num+1, w.pos, uint32(len(w.mainLeaves)), jNetID
			prevL1 = append(prevL1, d)
			w.pos++
			l := refBridgeLeaf(d)
			w.mainFront.Add(l)
			w.mainLeaves = append(w.mainLeaves, l)
			w.mainRoots = append(w.mainRoots, w.mainFront.Root())
			w.pendingL1Br = append(w.pendingL1Br, bridgesync.Event{Bridge: &d})
			w.shape += "D"
			if rapid.IntRange(0, 2).Draw(rt, "infoAfterDeposit") > 0 {
				w.addInfo() // the L1 bridge updates the GER on deposit
			}
		case "l2dep":
			d := genBridgeOrRepeat(rt, prevL2)
			w.l2Num++
			d.BlockNum, d.BlockPos, d.DepositCount, d.OriginNetwork = w.l2Num, 0, uint32(len(w.l2Leaves)), jNetID
			prevL2 = append(prevL2, d)
			l := refBridgeLeaf(d)
			w.l2Front.Add(l)
			w.l2Leaves = append(w.l2Leaves, l)
			w.l2Roots = append(w.l2Roots, w.l2Front.Root())
			if err := w.s2.VerifProcessBlock(bg, aggkitsync.Block{Num: w.l2Num, Hash: common.BigToHash(big.NewInt(int64(w.l2Num) + 500)), Events: []interface{}{bridgesync.Event{Bridge: &d}}}); err != nil {
				return err
			}
			w.shape += "d"
		case "verifyOurs":
			if len(w.l2Leaves) == 0 || w.verifiedL2 == len(w.l2Leaves) {
				continue
			}
			cnt := w.verifiedL2 + rapid.IntRange(1, len(w.l2Leaves)-w.verifiedL2).Draw(rt, "verifyUpTo")
			ler := w.l2Roots[cnt-1]
			w.verifiedL2 = cnt
			w.rollupLeaves[jNetID] = ler
			w.pendingL1 = append(w.pendingL1, l1infotreesync.Event{VerifyBatches: &l1infotreesync.VerifyBatches{BlockPosition: w.pos, RollupID: jNetID, NumBatch: uint64(cnt), StateRoot: common.Hash{3}, ExitRoot: ler, Aggregator: common.Address{4}}})
			w.pos++
			w.shape += "V"
			if !w.lax || rapid.IntRange(0, 2).Draw(rt, "infoAfterVerification") > 0 {
				w.addInfo() // the rollup manager updates the GER on verification
			}
		case "verifyForeign":
			id := rapid.SampledFrom([]uint32{1, 2, 4}).Draw(rt, "foreignID")
			h := genHash.Draw(rt, "foreignLER")
			if rapid.IntRange(0, 3).Draw(rt, "foreignSpecialLER") == 0 {
				// e.g. a neighbour that settles before its first bridge exit reports the root of an empty exit tree; a rollup
				// never returns to a value it had before (its exit tree only grows, and the root table is keyed by the hash)
				if sp := rapid.SampledFrom(specialExitRoots).Draw(rt, "foreignSpecial"); !w.foreignHad[id][sp] {
					h = sp
				}
			}
			if w.foreignHad[id] == nil {
				w.foreignHad[id] = map[common.Hash]bool{}
			}
			w.foreignHad[id][h] = true
			w.rollupLeaves[id] = h
			w.pendingL1 = append(w.pendingL1, l1infotreesync.Event{VerifyBatches: &l1infotreesync.VerifyBatches{BlockPosition: w.pos, RollupID: id, NumBatch: 1, StateRoot: common.Hash{3}, ExitRoot: h, Aggregator: common.Address{4}}})
			w.pos++
			w.shape += "F"
			if !w.lax || rapid.IntRange(0, 2).Draw(rt, "infoAfterVerification") > 0 {
				w.addInfo()
			}
		case "info":
			w.addInfo()
		case "endL1Block":
			if err := w.flushL1(); err != nil {
				return err
			}
		case "inject":
			// an L1 info leaf already flushed gets injected on L2
			if n := w.flushedInfos(); n > 0 {
				idx := rapid.IntRange(0, n-1).Draw(rt, "injectIdx")
				g := ref.GER(w.infos[idx].MER, w.infos[idx].RER)
				if _, dup := w.injected[g]; !dup {
					w.l2Num++
					w.injected[g] = uint32(idx)
					if err := w.sg.VerifProcessBlock(bg, aggkitsync.Block{Num: w.l2Num, Hash: common.BigToHash(big.NewInt(int64(w.l2Num) + 500)),
						Events: []interface{}{&lastgersync.Event{GEREvent: &lastgersync.GEREvent{BlockNum: w.l2Num, GlobalExitRoot: g, L1InfoTreeIndex: uint32(idx)}}}}); err != nil {
						return err
					}
					w.shape += "g"
				}
			}
		}
	}
	return w.flushL1()
}

func (w *c12World) flushedInfos() int {
	n := len(w.infos)
	for _, e := range w.pendingL1 {
		if ev, ok := e.(l1infotreesync.Event); ok && ev.UpdateL1InfoTree != nil {
			n--
		}
	}
	return n
}

func c12Get(h func(*gin.Context), url string) (int, []byte) {
	rr := httptest.NewRecorder()
	c, _ := gin.CreateTestContext(rr)
	c.Request = httptest.NewRequest("GET", url, nil)
	h(c)
	return rr.Code, rr.Body.Bytes()
}

func toProof(p bridgetypes.Proof) [32]common.Hash {
	var out [32]common.Hash
	for i, h := range p {
		out[i] = common.HexToHash(string(h))
	}
	return out
}

func c12Prop(rt *rapid.T, rec *ev.Recorder) {
	w, err := newC12World()
	if err != nil {
		fatal(rt, "INCONCLUSIVE: world: %v", err)
	}
	defer w.close()
	c12Pad = rapid.SampledFrom([]int{0, 0, 2, 3, 10}).Draw(rt, "zeroPaddedRequestNumbers")
	if c12Pad > 0 {
		rec.Class("worlds_whose_client_sends_zero_padded_decimal_numbers")
	}
	svc := bridgeservice.New(&bridgeservice.Config{Logger: log.WithFields("module", "c12"), Address: "127.0.0.1:0", ReadTimeout: 5 * time.Second, WriteTimeout: 5 * time.Second, NetworkID: jNetID},
		w.si, w.sg, w.s1, w.s2)
	if rapid.IntRange(0, 2).Draw(rt, "requestsWhileTheBridgeSyncerIsBehind") == 0 {
		w.early = func(info, dep int) {
			if info >= 0 && dep >= 0 {
				_, _ = c12Get(svc.ClaimProofHandler, fmt.Sprintf("/claim-proof?network_id=0&leaf_index=%s&deposit_count=%s", c12Num(info), c12Num(dep)))
			}
		}
	}
	// a third of the worlds see an L1 reorg after the first round of requests: the SAME service instance must then answer
	// for the new fork (the L2 side is not reorged; no L1 info leaf of the stretch that will be dropped is injected on L2)
	planReorg := rapid.IntRange(0, 2).Draw(rt, "l1ReorgAfterFirstRequests") == 0
	steps := rapid.IntRange(3, 40).Draw(rt, "steps")
	var snap c12L1Snap
	if !planReorg {
		err = c12Gen(rt, w, steps, true, true)
	} else {
		if err = c12Gen(rt, w, steps/2+1, true, true); err == nil {
			snap = w.snapshotL1()
			err = c12Gen(rt, w, steps/2+1, false, false)
		}
	}
	if err != nil {
		fatal(rt, "INCONCLUSIVE: a store refused a valid block: %v", err)
	}
	nt := false
	proofs := 0
	type pair struct{ dep, info int }
	queryAll := func() {
		sample := func(nDeps int) []pair {
			var ps []pair
			for j := 0; j < nDeps; j++ {
				for i := range w.infos {
					ps = append(ps, pair{j, i})
				}
			}
			if len(ps) > 120 {
				var out []pair
				for k := 0; k < 120; k++ {
					out = append(out, ps[rapid.IntRange(0, len(ps)-1).Draw(rt, "pair")])
				}
				return out
			}
			return ps
		}
		// ---- /claim-proof for mainnet bridges
		for _, p := range sample(len(w.mainLeaves)) {
			inf := w.infos[p.info]
			if p.dep >= inf.MainCount {
				continue // this leaf's exit roots do not cover the bridge yet
			}
			code, body := c12Get(svc.ClaimProofHandler, fmt.Sprintf("/claim-proof?network_id=0&leaf_index=%s&deposit_count=%s", c12Num(p.info), c12Num(p.dep)))
			if code != 200 {
				fatal(rt, "claim-proof(mainnet bridge %d, L1 info leaf %d covering it) -> HTTP %d %s  [world %s]", p.dep, p.info, code, body, w.shape)
			}
			var cp bridgetypes.ClaimProof
			if err := json.Unmarshal(body, &cp); err != nil {
				fatal(rt, "claim-proof response does not parse: %v", err)
			}
			if got := ref.VerifyProof(w.mainLeaves[p.dep], toProof(cp.ProofLocalExitRoot), uint32(p.dep)); got != inf.MER {
				fatal(rt, "claim-proof(mainnet bridge %d, leaf %d): the proof hashes the bridge's leaf to %s, the leaf's mainnet exit root is %s  [world %s]", p.dep, p.info, got, inf.MER, w.shape)
			}
			if common.HexToHash(string(cp.L1InfoTreeLeaf.MainnetExitRoot)) != inf.MER || common.HexToHash(string(cp.L1InfoTreeLeaf.RollupExitRoot)) != inf.RER || cp.L1InfoTreeLeaf.L1InfoTreeIndex != uint32(p.info) {
				fatal(rt, "claim-proof(mainnet bridge %d, leaf %d): returned L1 info leaf is not leaf %d", p.dep, p.info, p.info)
			}
			proofs++
		}
		// ---- /claim-proof for bridges of the node's own network
		for _, p := range sample(len(w.l2Leaves)) {
			inf := w.infos[p.info]
			if !inf.HasOurLER || p.dep >= inf.L2Count {
				continue
			}
			code, body := c12Get(svc.ClaimProofHandler, fmt.Sprintf("/claim-proof?network_id=%s&leaf_index=%s&deposit_count=%s", c12Num(jNetID), c12Num(p.info), c12Num(p.dep)))
			if code != 200 {
				fatal(rt, "claim-proof(L2 bridge %d, L1 info leaf %d covering it) -> HTTP %d %s  [world %s]", p.dep, p.info, code, body, w.shape)
			}
			var cp bridgetypes.ClaimProof
			if err := json.Unmarshal(body, &cp); err != nil {
				fatal(rt, "claim-proof response does not parse: %v", err)
			}
			ler := ref.VerifyProof(w.l2Leaves[p.dep], toProof(cp.ProofLocalExitRoot), uint32(p.dep))
			if ler != w.l2Roots[inf.L2Count-1] {
				fatal(rt, "claim-proof(L2 bridge %d, leaf %d): the proof hashes the bridge's leaf to %s, the local exit root verified as of that leaf is %s  [world %s]", p.dep, p.info, ler, w.l2Roots[inf.L2Count-1], w.shape)
			}
			if got := ref.VerifyProof(ler, toProof(cp.ProofRollupExitRoot), jNetID-1); got != inf.RER {
				fatal(rt, "claim-proof(L2 bridge %d, leaf %d): the rollup proof hashes the local exit root to %s, the leaf's rollup exit root is %s  [world %s]", p.dep, p.info, got, inf.RER, w.shape)
			}
			proofs++
		}
		// ---- /l1-info-tree-index
		check := func(net uint32, dep int, covers func(c12Info) bool, nDeps int) {
			code, body := c12Get(svc.L1InfoTreeIndexForBridgeHandler, fmt.Sprintf("/l1-info-tree-index?network_id=%s&deposit_count=%s", c12Num(net), c12Num(dep)))
			first := -1
			for i, inf := range w.infos {
				if covers(inf) {
					first = i
					break
				}
			}
			if code == 200 {
				var idx uint32
				if err := json.Unmarshal(body, &idx); err != nil {
					fatal(rt, "l1-info-tree-index response does not parse: %s", body)
				}
				if int(idx) >= len(w.infos) || !covers(w.infos[idx]) {
					fatal(rt, "l1-info-tree-index(network %d, deposit count %d) returned leaf %d whose exit roots do not cover that bridge (first covering leaf: %d of %d)  [world %s]", net, dep, idx, first, len(w.infos), w.shape)
				}
				if int(idx) == first {
					rec.Class("index_lookup_minimal")
				} else {
					rec.Class("index_lookup_not_minimal")
				}
				if first > 0 && first < len(w.infos)-1 {
					nt = true
				}
			} else {
				if first >= 0 {
					rec.Class("index_lookup_error_although_covered")
				} else {
					rec.Class("index_lookup_error_not_covered")
				}
			}
			if first < 0 && code == 200 {
				fatal(rt, "l1-info-tree-index(network %d, deposit count %d) answered although no leaf covers that bridge", net, dep)
			}
		}
		for dep := 0; dep <= len(w.mainLeaves)+1; dep++ {
			d := dep
			check(0, d, func(i c12Info) bool { return i.MainCount > d }, len(w.mainLeaves))
		}
		for dep := 0; dep <= len(w.l2Leaves)+1; dep++ {
			d := dep
			check(jNetID, d, func(i c12Info) bool { return i.HasOurLER && i.L2Count > d }, len(w.l2Leaves))
		}
		// ---- /injected-l1-info-leaf
		for x := 0; x <= len(w.infos); x++ {
			code, body := c12Get(svc.InjectedL1InfoLeafHandler, fmt.Sprintf("/injected-l1-info-leaf?network_id=%s&leaf_index=%s", c12Num(jNetID), c12Num(x)))
			exists := false
			for _, idx := range w.injected {
				if int(idx) >= x {
					exists = true
				}
			}
			if code == 200 {
				var l bridgetypes.L1InfoTreeLeafResponse
				_ = json.Unmarshal(body, &l)
				g := common.HexToHash(string(l.GlobalExitRoot))
				if idx, ok := w.injected[g]; !ok || int(idx) < x || l.L1InfoTreeIndex != idx {
					fatal(rt, "injected-l1-info-leaf(index >= %d) returned leaf %d (GER %s) which was not injected / is below the requested index", x, l.L1InfoTreeIndex, g.Hex()[:12])
				}
			} else if exists {
				fatal(rt, "injected-l1-info-leaf(index >= %d) -> HTTP %d although an injected GER with such an index exists", x, code)
			}
		}
	}
	queryAll()
	if planReorg {
		if err := w.s1.VerifReorg(bg, snap.l1Num+1); err != nil {
			fatal(rt, "INCONCLUSIVE: L1 bridge store refused the reorg: %v", err)
		}
		if err := w.si.VerifReorg(bg, snap.l1Num+1); err != nil {
			fatal(rt, "INCONCLUSIVE: L1 info store refused the reorg: %v", err)
		}
		w.restoreL1(snap)
		w.shape += "<L1 reorg>"
		if err := c12Gen(rt, w, rapid.IntRange(1, 15).Draw(rt, "newForkSteps"), false, false); err != nil {
			fatal(rt, "INCONCLUSIVE: a store refused a valid new-fork block: %v", err)
		}
		queryAll()
		rec.Class("worlds_with_an_l1_reorg_between_two_rounds_of_requests")
	}
	rec.Case(nt, w.shape)
	rec.ClassN("claim_proofs_verified", proofs)
	if nt && rec.WantSample() {
		rec.Sample(map[string]any{"world (D=L1 deposit, d=L2 deposit, V=verify ours, F=verify foreign, i=info leaf, |=L1 block end, g=GER injected)": w.shape,
			"mainnet_bridges": len(w.mainLeaves), "l2_bridges": len(w.l2Leaves), "info_leaves": len(w.infos), "claim_proofs_verified": proofs})
	}
}

func TestC12(t *testing.T) {
	rec := ev.For("C12", c12Rule)
	rec.Assume("every batch verification is followed by the L1 info update the contracts emit (the API's search documents this assumption)")
	gin.SetMode(gin.ReleaseMode)
	rapid.Check(t, func(rt *rapid.T) { c12Prop(rt, rec) })
}

// c12Num renders a numeric request parameter the way the world's client does: plain decimal, or zero-padded decimal
// ("%03d", "%010d" - still decimal: 010 is ten).
var c12Pad int

func c12Num[T ~int | ~uint32 | ~uint64 | ~int64 | ~uint](x T) string {
	return fmt.Sprintf("%0*d", c12Pad, uint64(x))
}
