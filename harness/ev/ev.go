// Package ev records what a check actually covered and the known-findings protocol.
package ev

import (
	"encoding/json"
	"fmt"
	"hash/fnv"
	"os"
	"path/filepath"
	"sort"
	"sync"
)

type Recorder struct {
	mu         sync.Mutex
	Property   string
	Rule       string
	evals      int
	nontriv    map[uint64]struct{}
	classes    map[string]int
	samples    []any
	maxSample  int
	known      map[string]Known // signature -> entry
	knownHit   map[string]int
	extra      map[string]any
	assume     []string
	exhaustive bool
}

type Known struct {
	Property  string `json:"property"`
	Signature string `json:"signature"`
	What      string `json:"what"`
	Status    string `json:"status"` // "known" | "fixed"
	Commit    string `json:"commit,omitempty"`
}

var (
	regMu sync.Mutex
	reg   = map[string]*Recorder{}
)

// For returns the process-wide recorder of a property.
func For(property, rule string) *Recorder {
	regMu.Lock()
	defer regMu.Unlock()
	if r, ok := reg[property]; ok {
		return r
	}
	r := &Recorder{Property: property, Rule: rule, nontriv: map[uint64]struct{}{}, classes: map[string]int{},
		maxSample: 4, known: map[string]Known{}, knownHit: map[string]int{}, extra: map[string]any{}}
	for _, k := range loadKnown() {
		if k.Property == property && k.Status == "known" {
			r.known[k.Signature] = k
		}
	}
	reg[property] = r
	return r
}

func knownPath() string {
	if p := os.Getenv("VERIF_KNOWN"); p != "" {
		return p
	}
	return "/verif/known_findings.json"
}

func loadKnown() []Known {
	b, err := os.ReadFile(knownPath())
	if err != nil {
		return nil
	}
	var f struct {
		Findings []Known `json:"findings"`
	}
	if json.Unmarshal(b, &f) != nil {
		return nil
	}
	return f.Findings
}

func hashKey(s string) uint64 { h := fnv.New64a(); h.Write([]byte(s)); return h.Sum64() }

// Case counts one executed case. key is the canonical form used for distinctness; it is only
// counted in distinct_nontrivial when nontrivial is true.
func (r *Recorder) Case(nontrivial bool, key string) {
	r.mu.Lock()
	defer r.mu.Unlock()
	r.evals++
	if nontrivial {
		r.nontriv[hashKey(key)] = struct{}{}
	}
}

// Evals adds n to evaluations without touching distinctness (used for inner enumerations).
func (r *Recorder) Evals(n int) { r.mu.Lock(); r.evals += n; r.mu.Unlock() }

func (r *Recorder) Class(name string)         { r.mu.Lock(); r.classes[name]++; r.mu.Unlock() }
func (r *Recorder) ClassN(name string, n int) { r.mu.Lock(); r.classes[name] += n; r.mu.Unlock() }

// Sample keeps the first few non-trivial cases written out.
func (r *Recorder) Sample(v any) {
	r.mu.Lock()
	defer r.mu.Unlock()
	if len(r.samples) < r.maxSample {
		r.samples = append(r.samples, v)
	}
}
func (r *Recorder) WantSample() bool {
	r.mu.Lock()
	defer r.mu.Unlock()
	return len(r.samples) < r.maxSample
}

func (r *Recorder) Set(k string, v any) { r.mu.Lock(); r.extra[k] = v; r.mu.Unlock() }
func (r *Recorder) Assume(s string) {
	r.mu.Lock()
	defer r.mu.Unlock()
	for _, a := range r.assume {
		if a == s {
			return
		}
	}
	r.assume = append(r.assume, s)
}
func (r *Recorder) Exhaustive(b bool) { r.mu.Lock(); r.exhaustive = b; r.mu.Unlock() }

// IsKnown reports whether a mismatch with this structural signature is a listed known finding.
// When it is, the hit is counted (the driver prints the KNOWN-FINDING line) and the caller
// must treat the case as excluded and continue.
func (r *Recorder) IsKnown(signature string) bool {
	r.mu.Lock()
	defer r.mu.Unlock()
	if _, ok := r.known[signature]; ok {
		r.knownHit[signature]++
		return true
	}
	return false
}

type fragment struct {
	Property   string            `json:"property_id"`
	Rule       string            `json:"rule"`
	Evals      int               `json:"evaluations"`
	Hashes     []uint64          `json:"nontrivial_hashes"`
	Classes    map[string]int    `json:"classes"`
	Samples    []any             `json:"samples"`
	KnownHits  map[string]int    `json:"known_hits"`
	KnownWhat  map[string]string `json:"known_what"`
	Extra      map[string]any    `json:"extra"`
	Assume     []string          `json:"assumptions"`
	Exhaustive bool              `json:"exhaustive"`
}

// Flush writes (merging with an existing fragment of the same process chain) the fragment file
// $VERIF_EVIDENCE_OUT/<property>.<pid>.json. Called from TestMain.
func FlushAll() {
	dir := os.Getenv("VERIF_EVIDENCE_OUT")
	if dir == "" {
		return
	}
	regMu.Lock()
	defer regMu.Unlock()
	for _, r := range reg {
		r.mu.Lock()
		f := fragment{Property: r.Property, Rule: r.Rule, Evals: r.evals, Classes: r.classes, Samples: r.samples,
			KnownHits: r.knownHit, KnownWhat: map[string]string{}, Extra: r.extra, Assume: r.assume, Exhaustive: r.exhaustive}
		for h := range r.nontriv {
			f.Hashes = append(f.Hashes, h)
		}
		sort.Slice(f.Hashes, func(i, j int) bool { return f.Hashes[i] < f.Hashes[j] })
		for s := range r.knownHit {
			f.KnownWhat[s] = r.known[s].What
		}
		b, err := json.Marshal(f)
		r.mu.Unlock()
		if err != nil {
			fmt.Fprintln(os.Stderr, "evidence marshal:", err)
			continue
		}
		p := filepath.Join(dir, fmt.Sprintf("%s.%d.json", r.Property, os.Getpid()))
		if err := os.WriteFile(p, b, 0o644); err != nil {
			fmt.Fprintln(os.Stderr, "evidence write:", err)
		}
	}
}
