package harness

import (
	"context"
	"errors"
	"fmt"
	"math/big"
	"sync"
	"testing"
	"time"

	dbtypes "github.com/agglayer/aggkit/db/types"
	"github.com/agglayer/aggkit/reorgdetector"
	aggkitsync "github.com/agglayer/aggkit/sync"
	aggkittypes "github.com/agglayer/aggkit/types"
	"github.com/ethereum/go-ethereum"
	"github.com/ethereum/go-ethereum/common"
	"github.com/ethereum/go-ethereum/core/types"
	"pgregory.net/rapid"

	"verifharness/choose"
	"verifharness/ev"
	"verifharness/fakechain"
)

// C05 — syncers deliver every watched event exactly once, in chain order.

const c05Rule = "case = (chain: per block 0-4 logs in {watched topic A/B, unwatched topic on a watched address, log of an unwatched " +
	"address, removed log with the canonical or with an orphaned block hash}, chunk size, block finality, finalized-block type, a script of tip/safe/finalized pointer moves applied " +
	"at the node's own tip polls, transient RPC failures, optional stop/restart) run through the real EVMDownloader+EVMDriver on " +
	"the scripted chain with a recording store; oracle = history invariant on the recorded ProcessBlock calls; small chains are " +
	"enumerated exhaustively (bounds in enumeration_bounds); non-trivial = >=2 event blocks and (a range boundary on an event block " +
	"| finalized pointer inside the chain | injected fault | tip jump > chunk | restart); distinct = hash of the whole case"

var (
	c05AddrW  = common.HexToAddress("0x1111111111111111111111111111111111111111")
	c05AddrU  = common.HexToAddress("0x2222222222222222222222222222222222222222")
	c05TopicA = common.HexToHash("0xa1")
	c05TopicB = common.HexToHash("0xb2")
	c05TopicU = common.HexToHash("0xc3")
)

type c05Event struct {
	Block uint64
	Index uint
	Topic common.Hash
}

// recorder is the store: it records every ProcessBlock / Reorg call.
type recorder struct {
	mu      sync.Mutex
	last    uint64
	calls   []aggkitsync.Block
	reorgs  []uint64
	failN   int // fail the next N ProcessBlock calls (transient storage error)
	compat  *aggkitsync.RuntimeData
	onBlock func(b aggkitsync.Block)
}

func (r *recorder) GetLastProcessedBlock(context.Context) (uint64, error) {
	r.mu.Lock()
	defer r.mu.Unlock()
	return r.last, nil
}
func (r *recorder) ProcessBlock(_ context.Context, b aggkitsync.Block) error {
	r.mu.Lock()
	defer r.mu.Unlock()
	if r.failN > 0 {
		r.failN--
		return errors.New("transient storage error")
	}
	r.calls = append(r.calls, b)
	r.last = b.Num
	if r.onBlock != nil {
		r.onBlock(b)
	}
	return nil
}
func (r *recorder) Reorg(_ context.Context, first uint64) error {
	r.mu.Lock()
	defer r.mu.Unlock()
	r.reorgs = append(r.reorgs, first)
	if first > 0 && r.last >= first {
		r.last = first - 1
	}
	return nil
}
func (r *recorder) GetCompatibilityData(context.Context, dbtypes.Querier) (bool, aggkitsync.RuntimeData, error) {
	r.mu.Lock()
	defer r.mu.Unlock()
	if r.compat == nil {
		return false, aggkitsync.RuntimeData{}, nil
	}
	return true, *r.compat, nil
}
func (r *recorder) SetCompatibilityData(_ context.Context, _ dbtypes.Querier, d aggkitsync.RuntimeData) error {
	r.mu.Lock()
	defer r.mu.Unlock()
	r.compat = &d
	return nil
}
func (r *recorder) snapshot() []aggkitsync.Block {
	r.mu.Lock()
	defer r.mu.Unlock()
	return append([]aggkitsync.Block{}, r.calls...)
}

// nopReorgDetector: the chain of C05 never forks.
type nopReorgDetector struct {
	fin aggkittypes.BlockNumberFinality
}

func (n nopReorgDetector) Subscribe(string) (*reorgdetector.Subscription, error) {
	return &reorgdetector.Subscription{ReorgedBlock: make(chan uint64), ReorgProcessed: make(chan bool)}, nil
}
func (n nopReorgDetector) AddBlockToTrack(context.Context, string, uint64, common.Hash) error {
	return nil
}
func (n nopReorgDetector) GetFinalizedBlockType() aggkittypes.BlockNumberFinality { return n.fin }
func (n nopReorgDetector) String() string                                         { return "nop" }

type c05Step struct {
	DTip, DSafe, DFin int
	// On: the pointers also move when the node makes this kind of RPC before its next tip poll (time passes between any
	// two RPCs): 0 only at a tip poll, 1 at a log query, 2 at a header-by-number query, 3 at a query of another pointer
	On int
}

type c05Case struct {
	Blocks    [][]int // per block (number = index+1): log kinds 0..5
	Chunk     uint64
	Finality  int // 0 latest, 1 safe, 2 finalized
	FinType   int
	Script    []c05Step
	FaultKind []int // per fault: 0 FilterLogs error, 1 HeaderByNumber(number) error, 2 HeaderByNumber(number) NotFound, 3 tip poll error, 4 ProcessBlock error, 5 / 6 HeaderByNumber(number) / FilterLogs fails with an RPC timeout (wraps context.DeadlineExceeded), 7 the log appender fails once at that invocation before appending anything (appenders of the bridge syncer make an RPC per log)
	FaultAt   []int // ordinal of the call of that kind
	RestartAt int   // -1, or restart when the n-th RPC is made
	// the operator may change the configuration before the restart: chunk size (0 = unchanged), block finality (-1 = unchanged)
	Chunk2    uint64
	Finality2 int
}

var finNames = []aggkittypes.BlockNumberFinality{aggkittypes.LatestBlock, aggkittypes.SafeBlock, aggkittypes.FinalizedBlock}
var finTags = []string{"latest", "safe", "finalized"}

func c05Gen(ch choose.Chooser, enum bool, maxBlocks int) c05Case {
	var c c05Case
	if enum {
		n := ch.Int(1, maxBlocks, "nBlocks")
		for i := 0; i < n; i++ {
			if ch.Bool("hasLog") {
				c.Blocks = append(c.Blocks, []int{0})
			} else {
				c.Blocks = append(c.Blocks, nil)
			}
		}
		c.Chunk = uint64(ch.Int(1, 3, "chunk"))
		c.Finality, c.FinType = 0, 2
		ns := ch.Int(1, 3, "nSteps")
		tip, fin := 0, 0
		for i := 0; i < ns && tip < n; i++ {
			dt := ch.Int(1, n-tip, "dTip")
			tip += dt
			df := ch.Int(0, tip-fin, "dFin")
			fin += df
			c.Script = append(c.Script, c05Step{dt, tip, df, 0}) // safe follows the tip in the enumeration
		}
		c.RestartAt, c.Finality2 = -1, -1
		return c
	}
	n := ch.Int(1, maxBlocks, "nBlocks")
	for i := 0; i < n; i++ {
		var logs []int
		nl := choose.Pick(ch, []int{0, 0, 0, 1, 1, 2, 4}, "nLogs")
		for j := 0; j < nl; j++ {
			logs = append(logs, choose.Pick(ch, []int{0, 0, 0, 1, 2, 3, 4, 5}, "logKind"))
		}
		c.Blocks = append(c.Blocks, logs)
	}
	c.Chunk = uint64(choose.Pick(ch, []int{1, 2, 3, 5, 8, 50}, "chunk"))
	c.Finality = ch.Int(0, 2, "finality")
	c.FinType = ch.Int(0, 2, "finType")
	ns := ch.Int(1, 8, "nSteps")
	for i := 0; i < ns; i++ {
		c.Script = append(c.Script, c05Step{ch.Int(0, 8, "dTip"), ch.Int(0, 8, "dSafe"), ch.Int(0, 8, "dFin"), choose.Pick(ch, []int{0, 0, 0, 1, 2, 3}, "stepOn")})
	}
	nf := choose.Pick(ch, []int{0, 0, 1, 2, 3}, "nFaults")
	for i := 0; i < nf; i++ {
		c.FaultKind = append(c.FaultKind, ch.Int(0, 7, "faultKind"))
		c.FaultAt = append(c.FaultAt, ch.Int(0, 12, "faultAt"))
	}
	c.RestartAt, c.Finality2 = -1, -1
	if ch.Int(0, 3, "restart") == 0 {
		c.RestartAt = ch.Int(1, 60, "restartAt")
		if ch.Int(0, 2, "newChunkAtRestart") == 0 {
			c.Chunk2 = uint64(choose.Pick(ch, []int{1, 2, 3, 5, 8, 50}, "chunk2"))
		}
		if ch.Int(0, 3, "newFinalityAtRestart") == 0 {
			c.Finality2 = ch.Int(0, 2, "finality2")
		}
	}
	return c
}

type c05Result struct {
	calls      []aggkitsync.Block
	visibleTip uint64
	nontrivial bool
	inconcl    string
}

func c05Logs(kinds []int) []types.Log {
	var out []types.Log
	for i, k := range kinds {
		l := types.Log{Address: c05AddrW, Topics: []common.Hash{c05TopicA}, Data: []byte{byte(i)}, Index: uint(i)}
		switch k {
		case 1:
			l.Topics = []common.Hash{c05TopicB}
		case 2:
			l.Topics = []common.Hash{c05TopicU}
		case 3:
			l.Address = c05AddrU
		case 4:
			l.Removed = true
		case 5:
			// a removed log as a node reports it: it still carries the hash of the orphaned block
			l.Removed = true
			l.BlockHash = common.BigToHash(new(big.Int).SetUint64(0x0bad0000 + uint64(i)))
		}
		out = append(out, l)
	}
	return out
}

// c05Run drives the real downloader + driver over the scripted chain and returns the recorded hand-overs.
func c05Run(c c05Case) (res c05Result, err error) {
	chain := fakechain.New()
	for _, kinds := range c.Blocks {
		chain.Extend(c05Logs(kinds))
	}
	n := uint64(len(c.Blocks))
	curFinality, curChunk := c.Finality, c.Chunk // configuration of the running instance (may change at the restart)
	tipTag := finTags[curFinality]
	var (
		mu        sync.Mutex
		step      int
		rpcs      int
		parkedRun int // consecutive tip polls without other downloader activity, after the script ended
		faultUsed = make([]bool, len(c.FaultKind))
		counts    = map[int]int{}
		cancelFn  context.CancelFunc
		restarted bool
	)
	rec := &recorder{}
	for i, k := range c.FaultKind {
		if k == 4 {
			rec.failN += 1
			faultUsed[i] = true
		}
	}
	var lat, safe, fin uint64
	chain.Hook = func(ch *fakechain.Chain, call fakechain.Call) error {
		mu.Lock()
		defer mu.Unlock()
		rpcs++
		if c.RestartAt >= 0 && !restarted && rpcs == c.RestartAt && cancelFn != nil {
			restarted = true
			cancelFn()
		}
		kind := -1
		switch {
		case call.Method == "FilterLogs":
			kind = 0
		case call.Method == "HeaderByNumber" && call.Tag == "":
			kind = 1
		case call.Method == "HeaderByNumber" && call.Tag == tipTag:
			kind = 3
		}
		early := false
		if kind != 3 && step < len(c.Script) {
			switch c.Script[step].On {
			case 1:
				early = kind == 0
			case 2:
				early = kind == 1
			case 3:
				early = call.Method == "HeaderByNumber" && call.Tag != "" && call.Tag != tipTag
			}
		}
		if early {
			st := c.Script[step]
			step++
			lat = min64(lat+uint64(st.DTip), n)
			safe = min64(safe+uint64(st.DSafe), lat)
			fin = min64(fin+uint64(st.DFin), safe)
			ch.SetPointersLocked(lat, safe, fin)
			parkedRun = 0
		} else if kind == 3 {
			// the script clock: every tip poll of the node applies the next pointer move
			if step < len(c.Script) {
				st := c.Script[step]
				step++
				lat = min64(lat+uint64(st.DTip), n)
				safe = min64(safe+uint64(st.DSafe), lat)
				fin = min64(fin+uint64(st.DFin), safe)
			} else {
				if lat == 0 {
					lat = 1 // the chain always ends with at least one visible block
				}
				parkedRun++
			}
			ch.SetPointersLocked(lat, safe, fin)
		} else {
			parkedRun = 0
		}
		if kind >= 0 {
			counts[kind]++
			for i, fk := range c.FaultKind {
				hit := fk == kind || (fk == 2 && kind == 1) || (fk == 5 && kind == 1) || (fk == 6 && kind == 0)
				if !faultUsed[i] && hit && counts[kind] > c.FaultAt[i] {
					faultUsed[i] = true
					switch fk {
					case 2:
						return ethereum.NotFound
					case 5, 6:
						// the RPC client's own per-request timeout: the node's context is still alive
						return fmt.Errorf("injected rpc timeout: %w", context.DeadlineExceeded)
					}
					return errors.New("injected transient rpc failure")
				}
			}
		}
		return nil
	}
	appender := aggkitsync.LogAppenderMap{}
	for _, tp := range []common.Hash{c05TopicA, c05TopicB} {
		tp := tp
		appender[tp] = func(b *aggkitsync.EVMBlock, l types.Log) error {
			mu.Lock()
			counts[7]++
			for i, fk := range c.FaultKind {
				if fk == 7 && !faultUsed[i] && counts[7] > c.FaultAt[i] {
					faultUsed[i] = true
					mu.Unlock()
					return errors.New("injected transient failure of the appender's own rpc")
				}
			}
			mu.Unlock()
			b.Events = append(b.Events, c05Event{Block: l.BlockNumber, Index: l.Index, Topic: tp})
			return nil
		}
	}
	rh := &aggkitsync.RetryHandler{RetryAfterErrorPeriod: time.Millisecond, MaxRetryAttemptsAfterError: -1}
	start := func(ctx context.Context) (chan struct{}, error) {
		mu.Lock()
		chunk, finality := curChunk, curFinality
		mu.Unlock()
		dl, err := aggkitsync.NewEVMDownloader("c05", chain, chunk, finNames[finality], time.Millisecond, appender,
			[]common.Address{c05AddrW}, rh, finNames[c.FinType])
		if err != nil {
			return nil, err
		}
		drv, err := aggkitsync.NewEVMDriver(nopReorgDetector{fin: finNames[c.FinType]}, rec, dl, "c05", 100, rh, false)
		if err != nil {
			return nil, err
		}
		done := make(chan struct{})
		go func() { drv.Sync(ctx); close(done) }()
		return done, nil
	}
	ctx, cancel := context.WithCancel(context.Background())
	mu.Lock()
	cancelFn = cancel
	mu.Unlock()
	done, err := start(ctx)
	if err != nil {
		cancel()
		return res, err
	}
	deadline := time.Now().Add(120 * time.Second)
	visible := func() uint64 {
		mu.Lock()
		defer mu.Unlock()
		switch curFinality {
		case 1:
			return safe
		case 2:
			return fin
		}
		return lat
	}
	for {
		select {
		case <-done:
			// stopped (restart): start a fresh downloader/driver on the same store, as a process restart does
			ctx, cancel = context.WithCancel(context.Background())
			mu.Lock()
			cancelFn = cancel
			parkedRun = 0
			if c.Chunk2 > 0 {
				curChunk = c.Chunk2
			}
			if c.Finality2 >= 0 {
				curFinality = c.Finality2
				tipTag = finTags[curFinality]
			}
			mu.Unlock()
			if done, err = start(ctx); err != nil {
				cancel()
				return res, err
			}
			continue
		default:
		}
		mu.Lock()
		parked := step >= len(c.Script) && parkedRun >= 3
		mu.Unlock()
		if parked {
			calls := rec.snapshot()
			if c05Missing(c, calls, visible()) == "" {
				break
			}
		}
		if time.Now().After(deadline) {
			if parked {
				break // idle and different: the oracle below reports what is missing
			}
			res.inconcl = "node did not reach quiescence within 120s"
			break
		}
		time.Sleep(500 * time.Microsecond)
	}
	cancel()
	select {
	case <-done:
	case <-time.After(90 * time.Second):
		res.inconcl = "driver did not stop within 90s of cancellation"
	}
	res.calls = rec.snapshot()
	res.visibleTip = visible()
	return res, nil
}

func c05Watched(kinds []int) []c05Event {
	var out []c05Event
	for i, k := range kinds {
		if k == 0 {
			out = append(out, c05Event{Index: uint(i), Topic: c05TopicA})
		} else if k == 1 {
			out = append(out, c05Event{Index: uint(i), Topic: c05TopicB})
		}
	}
	return out
}

// c05Missing: event blocks <= visible tip that have not been delivered.
func c05Missing(c c05Case, calls []aggkitsync.Block, visibleTip uint64) string {
	got := map[uint64]bool{}
	for _, b := range calls {
		got[b.Num] = true
	}
	for i, kinds := range c.Blocks {
		num := uint64(i + 1)
		if num <= visibleTip && len(c05Watched(kinds)) > 0 && !got[num] {
			return fmt.Sprintf("block %d carries watched events, is at or below the visible tip %d, the node is idle, but it was never handed to the store", num, visibleTip)
		}
	}
	return ""
}

// c05Oracle checks the history invariant.
func c05Oracle(c c05Case, res c05Result) error {
	var prev uint64
	delivered := map[uint64]bool{}
	for k, b := range res.calls {
		if b.Num <= prev {
			return fmt.Errorf("hand-over #%d is block %d after block %d: not strictly increasing (duplicate or out of order)", k, b.Num, prev)
		}
		if b.Num == 0 || b.Num > uint64(len(c.Blocks)) {
			return fmt.Errorf("hand-over of block %d which does not exist", b.Num)
		}
		want := c05Watched(c.Blocks[b.Num-1])
		if len(b.Events) != len(want) {
			return fmt.Errorf("block %d handed over with %d events, the chain has %d watched, non-removed logs there (%v vs %v)", b.Num, len(b.Events), len(want), b.Events, want)
		}
		for i, e := range b.Events {
			ce, ok := e.(c05Event)
			if !ok || ce.Block != b.Num || ce.Index != want[i].Index || ce.Topic != want[i].Topic {
				return fmt.Errorf("block %d event %d is %+v, want log index %d topic %s of that block", b.Num, i, e, want[i].Index, want[i].Topic.Hex()[:6])
			}
		}
		// the marker never passes an undelivered event block
		for n := prev + 1; n < b.Num; n++ {
			if len(c05Watched(c.Blocks[n-1])) > 0 && !delivered[n] {
				return fmt.Errorf("block %d was handed over (last-processed marker moves to %d) although block %d with watched events was never stored", b.Num, b.Num, n)
			}
		}
		delivered[b.Num] = true
		prev = b.Num
	}
	if m := c05Missing(c, res.calls, res.visibleTip); m != "" {
		return errors.New(m)
	}
	return nil
}

func c05NonTrivial(c c05Case) bool {
	evBlocks := 0
	boundary := false
	for i, k := range c.Blocks {
		if len(c05Watched(k)) > 0 {
			evBlocks++
			if c.Chunk > 0 && (uint64(i+1)%(c.Chunk+1) == 0 || uint64(i)%(c.Chunk+1) == 0) {
				boundary = true
			}
		}
	}
	finInside, jump := false, false
	var fin, lat int
	for _, s := range c.Script {
		lat += s.DTip
		fin += s.DFin
		if s.DTip > int(c.Chunk) {
			jump = true
		}
		if fin > 0 && fin < len(c.Blocks) && fin < lat {
			finInside = true
		}
	}
	return evBlocks >= 2 && (boundary || finInside || len(c.FaultKind) > 0 || jump || c.RestartAt >= 0)
}

func c05Check(c c05Case) (error, string) {
	res, err := c05Run(c)
	if err != nil {
		return nil, "constructor: " + err.Error()
	}
	if res.inconcl != "" {
		return nil, res.inconcl
	}
	return c05Oracle(c, res), ""
}

func TestC05(t *testing.T) {
	rec := ev.For("C05", c05Rule)
	var rp struct {
		Case c05Case `json:"case"`
	}
	if loadReplay(&rp) {
		err, inc := c05Check(rp.Case)
		if inc != "" {
			t.Fatalf("INCONCLUSIVE: %s", inc)
		}
		if err != nil {
			t.Fatalf("replay: %v", err)
		}
		return
	}
	// exhaustive part: all small chains x chunk x pointer scripts, spread over a worker pool (each case waits on 1ms tickers)
	maxB, stride := 4, 2
	if thorough() {
		maxB, stride = 5, 1
	}
	k, nsh := shard()
	e := &choose.Enum{}
	var cases []c05Case
	idx := 0
	for {
		c := c05Gen(e, true, maxB)
		if (idx/stride)%nsh == k && idx%stride == 0 {
			cases = append(cases, c)
		}
		idx++
		if !e.Next() {
			break
		}
	}
	rec.Set("enumeration_bounds", fmt.Sprintf("all chains of <=%d blocks x {watched log or not per block} x chunk in {1,2,3} x all tip/finalized scripts of <=3 steps: %d cases in total; this run takes every %d-th (shard %d/%d): %d cases", maxB, idx, stride, k, nsh, len(cases)))
	var wg sync.WaitGroup
	var fmu sync.Mutex
	var firstErr error
	var firstCase c05Case
	inconcl := ""
	sem := make(chan struct{}, 12)
	if !firstBatch() {
		cases = nil
	}
	for _, c := range cases {
		c := c
		fmu.Lock()
		stop := firstErr != nil
		fmu.Unlock()
		if stop {
			break
		}
		wg.Add(1)
		sem <- struct{}{}
		go func() {
			defer wg.Done()
			defer func() { <-sem }()
			err, inc := c05Check(c)
			rec.Case(c05NonTrivial(c), fmt.Sprint(c))
			fmu.Lock()
			if err != nil && firstErr == nil {
				firstErr, firstCase = err, c
			}
			if inc != "" {
				inconcl = inc
			}
			fmu.Unlock()
		}()
	}
	wg.Wait()
	rec.Set("enumerated_cases", len(cases))
	if firstErr != nil {
		p := saveReplay("C05", map[string]any{"case": firstCase})
		t.Fatalf("%v\ncase: %+v (replay %s)", firstErr, firstCase, p)
	}
	if inconcl != "" {
		t.Fatalf("INCONCLUSIVE: %s", inconcl)
	}
	maxRB := 40
	if thorough() {
		maxRB = 200
	}
	rapid.Check(t, func(rt *rapid.T) {
		c := c05Gen(choose.Rapid{T: rt}, false, maxRB)
		err, inc := c05Check(c)
		if inc != "" {
			rt.Fatalf("INCONCLUSIVE: %s", inc)
		}
		nt := c05NonTrivial(c)
		rec.Case(nt, fmt.Sprint(c))
		if len(c.FaultKind) > 0 {
			rec.Class("with_faults")
		}
		if c.RestartAt >= 0 {
			rec.Class("with_restart")
		}
		if nt && rec.WantSample() {
			rec.Sample(c)
		}
		if err != nil {
			rt.Fatalf("%v\ncase: %+v", err, c)
		}
	})
}
