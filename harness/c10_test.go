package harness

import (
	"bytes"
	"encoding/json"
	"fmt"
	"math/big"
	"testing"

	nodetypes "buf.build/gen/go/agglayer/agglayer/protocolbuffers/go/agglayer/node/types/v1"
	interop "buf.build/gen/go/agglayer/interop/protocolbuffers/go/agglayer/interop/types/v1"
	agglayertypes "github.com/agglayer/aggkit/agglayer/types"
	"github.com/ethereum/go-ethereum/common"
	"github.com/ethereum/go-ethereum/crypto"
	"pgregory.net/rapid"

	"verifharness/choose"
	"verifharness/ev"
	"verifharness/ref"
)

// C10 — the signature commits to exactly what is sent and stored.

const c10Rule = "case = certificates produced by the real PP flow from generated worlds (0..n exits and imported exits of both claim kinds, " +
	"zero/maximal amounts, empty/long metadata), sent through aggkit's real gRPC client over a unix socket and stored by the " +
	"real sendCertificate; per certificate: (1) the commitment recomputed FROM THE WIRE MESSAGE must be what the attached " +
	"signature signs (ecrecover = configured signer), (2) every covered field must be equal in the in-memory certificate, the " +
	"wire message and the JSON read back from storage, (3) every single-field perturbation of a covered field must change the " +
	"commitment/identity; plus FEP-scheme certificates derived from them for the FEP commitment; non-trivial = certificate with " +
	">=1 imported exit and >=1 exit; distinct = hash of (config, schedule, certificate ordinal)"

func b32(x *interop.FixedBytes32) common.Hash { return common.BytesToHash(x.GetValue()) }

// wirePPCommitment recomputes the PP commitment from the protobuf message.
func wirePPCommitment(p *nodetypes.Certificate) common.Hash {
	var gi []byte
	for _, ib := range p.GetImportedBridgeExits() {
		x := new(big.Int).SetBytes(ib.GetGlobalIndex().GetValue())
		gi = append(gi, crypto.Keccak256(le32(x))...)
	}
	return crypto.Keccak256Hash(p.GetNewLocalExitRoot().GetValue(), crypto.Keccak256(gi))
}

func wireExitVsMem(p *interop.BridgeExit, e *agglayertypes.BridgeExit) string {
	lt := uint8(0)
	if p.GetLeafType() == interop.LeafType_LEAF_TYPE_MESSAGE {
		lt = 1
	} else if p.GetLeafType() != interop.LeafType_LEAF_TYPE_TRANSFER {
		return "leaf type unspecified on the wire"
	}
	switch {
	case lt != uint8(e.LeafType):
		return "leaf type"
	case p.GetTokenInfo().GetOriginNetwork() != e.TokenInfo.OriginNetwork || common.BytesToAddress(p.GetTokenInfo().GetOriginTokenAddress().GetValue()) != e.TokenInfo.OriginTokenAddress:
		return "token info"
	case p.GetDestNetwork() != e.DestinationNetwork || common.BytesToAddress(p.GetDestAddress().GetValue()) != e.DestinationAddress:
		return "destination"
	}
	amt := e.Amount
	if amt == nil {
		amt = big.NewInt(0)
	}
	if len(p.GetAmount().GetValue()) != 32 || new(big.Int).SetBytes(p.GetAmount().GetValue()).Cmp(amt) != 0 {
		return fmt.Sprintf("amount: wire %x, in memory %s", p.GetAmount().GetValue(), amt)
	}
	if len(e.Metadata) == 0 {
		if p.GetMetadata() != nil && len(p.GetMetadata().GetValue()) != 0 {
			return "metadata hash present on the wire only"
		}
	} else if !bytes.Equal(p.GetMetadata().GetValue(), e.Metadata) {
		return fmt.Sprintf("metadata hash: wire %x, in memory %x", p.GetMetadata().GetValue(), e.Metadata)
	}
	return ""
}

func wireProofVsMem(p *interop.MerkleProof, m *agglayertypes.MerkleProof) string {
	if b32(p.GetRoot()) != m.Root {
		return "proof root"
	}
	if len(p.GetSiblings()) != 32 {
		return "sibling count"
	}
	for i, s := range p.GetSiblings() {
		if b32(s) != m.Proof[i] {
			return fmt.Sprintf("sibling %d", i)
		}
	}
	return ""
}

func wireLeafVsMem(p *interop.L1InfoTreeLeafWithContext, m *agglayertypes.L1InfoTreeLeaf) string {
	switch {
	case p.GetL1InfoTreeIndex() != m.L1InfoTreeIndex:
		return "l1 info tree index"
	case b32(p.GetRer()) != m.RollupExitRoot || b32(p.GetMer()) != m.MainnetExitRoot:
		return "rer/mer"
	case b32(p.GetInner().GetGlobalExitRoot()) != m.Inner.GlobalExitRoot || b32(p.GetInner().GetBlockHash()) != m.Inner.BlockHash || p.GetInner().GetTimestamp() != m.Inner.Timestamp:
		return "inner leaf"
	}
	return ""
}

// wireVsMem compares every covered field of the protobuf message with the in-memory certificate.
func wireVsMem(p *nodetypes.Certificate, c *agglayertypes.Certificate) string {
	switch {
	case p.GetNetworkId() != c.NetworkID:
		return "network id"
	case p.GetHeight() != c.Height:
		return fmt.Sprintf("height: wire %d, in memory %d", p.GetHeight(), c.Height)
	case b32(p.GetPrevLocalExitRoot()) != c.PrevLocalExitRoot:
		return "prev local exit root"
	case b32(p.GetNewLocalExitRoot()) != c.NewLocalExitRoot:
		return "new local exit root"
	case b32(p.GetMetadata()) != c.Metadata:
		return "metadata"
	case p.GetL1InfoTreeLeafCount() != c.L1InfoTreeLeafCount:
		return "l1 info tree leaf count"
	case !bytes.Equal(p.GetCustomChainData(), c.CustomChainData):
		return "custom chain data"
	case len(p.GetBridgeExits()) != len(c.BridgeExits) || len(p.GetImportedBridgeExits()) != len(c.ImportedBridgeExits):
		return "number of exits"
	}
	for i, e := range c.BridgeExits {
		if d := wireExitVsMem(p.GetBridgeExits()[i], e); d != "" {
			return fmt.Sprintf("bridge exit %d: %s", i, d)
		}
	}
	for i, ib := range c.ImportedBridgeExits {
		pi := p.GetImportedBridgeExits()[i]
		if d := wireExitVsMem(pi.GetBridgeExit(), ib.BridgeExit); d != "" {
			return fmt.Sprintf("imported exit %d: %s", i, d)
		}
		gi := pi.GetGlobalIndex().GetValue()
		want := refGlobalIndexOf(ib.GlobalIndex)
		if len(gi) != 32 || new(big.Int).SetBytes(gi).Cmp(want) != 0 {
			return fmt.Sprintf("imported exit %d: global index wire %x, in memory 0x%x", i, gi, want)
		}
		switch cd := ib.ClaimData.(type) {
		case *agglayertypes.ClaimFromMainnnet:
			pm := pi.GetMainnet()
			if pm == nil {
				return fmt.Sprintf("imported exit %d: claim kind", i)
			}
			for _, d := range []string{wireProofVsMem(pm.GetProofLeafMer(), cd.ProofLeafMER), wireProofVsMem(pm.GetProofGerL1Root(), cd.ProofGERToL1Root), wireLeafVsMem(pm.GetL1Leaf(), cd.L1Leaf)} {
				if d != "" {
					return fmt.Sprintf("imported exit %d claim data: %s", i, d)
				}
			}
		case *agglayertypes.ClaimFromRollup:
			pr := pi.GetRollup()
			if pr == nil {
				return fmt.Sprintf("imported exit %d: claim kind", i)
			}
			for _, d := range []string{wireProofVsMem(pr.GetProofLeafLer(), cd.ProofLeafLER), wireProofVsMem(pr.GetProofLerRer(), cd.ProofLERToRER), wireProofVsMem(pr.GetProofGerL1Root(), cd.ProofGERToL1Root), wireLeafVsMem(pr.GetL1Leaf(), cd.L1Leaf)} {
				if d != "" {
					return fmt.Sprintf("imported exit %d claim data: %s", i, d)
				}
			}
		}
	}
	return ""
}

func refGlobalIndexOf(g *agglayertypes.GlobalIndex) *big.Int {
	x := new(big.Int)
	if g.MainnetFlag {
		x.SetBit(x, 64, 1)
	} else {
		x.Or(x, new(big.Int).Lsh(big.NewInt(int64(g.RollupIndex)), 32))
	}
	return x.Or(x, big.NewInt(int64(g.LeafIndex)))
}

// storedVsMem compares the JSON the node stored with the in-memory certificate.
func storedVsMem(js string, c *agglayertypes.Certificate) string {
	var s agglayertypes.Certificate
	if err := json.Unmarshal([]byte(js), &s); err != nil {
		return "stored copy does not unmarshal: " + err.Error()
	}
	switch {
	case s.Hash() != c.Hash():
		return "identity hash of the stored copy differs"
	case s.PPHashToSign() != c.PPHashToSign():
		return "signing commitment of the stored copy differs"
	case s.NetworkID != c.NetworkID || s.Height != c.Height || s.PrevLocalExitRoot != c.PrevLocalExitRoot || s.NewLocalExitRoot != c.NewLocalExitRoot:
		return "header fields"
	case s.Metadata != c.Metadata:
		return "metadata"
	case s.L1InfoTreeLeafCount != c.L1InfoTreeLeafCount:
		return fmt.Sprintf("l1 info tree leaf count: stored %d, in memory %d", s.L1InfoTreeLeafCount, c.L1InfoTreeLeafCount)
	case len(s.BridgeExits) != len(c.BridgeExits) || len(s.ImportedBridgeExits) != len(c.ImportedBridgeExits):
		return "number of exits"
	}
	sig1, ok1 := s.AggchainData.(*agglayertypes.AggchainDataSignature)
	sig2, ok2 := c.AggchainData.(*agglayertypes.AggchainDataSignature)
	if !ok1 || !ok2 || !bytes.Equal(sig1.Signature, sig2.Signature) {
		return "signature"
	}
	for i := range c.BridgeExits {
		a, b := s.BridgeExits[i], c.BridgeExits[i]
		if a.LeafType != b.LeafType || *a.TokenInfo != *b.TokenInfo || a.DestinationNetwork != b.DestinationNetwork || a.DestinationAddress != b.DestinationAddress ||
			a.Amount.Cmp(b.Amount) != 0 || !bytes.Equal(a.Metadata, b.Metadata) {
			return fmt.Sprintf("bridge exit %d", i)
		}
	}
	for i := range c.ImportedBridgeExits {
		a, b := s.ImportedBridgeExits[i], c.ImportedBridgeExits[i]
		if *a.GlobalIndex != *b.GlobalIndex || a.ClaimData == nil || a.ClaimData.Hash() != b.ClaimData.Hash() || a.BridgeExit.Hash() != b.BridgeExit.Hash() {
			return fmt.Sprintf("imported exit %d", i)
		}
		la, lb := claimLeaf(a.ClaimData), claimLeaf(b.ClaimData)
		if la.L1InfoTreeIndex != lb.L1InfoTreeIndex || la.MainnetExitRoot != lb.MainnetExitRoot || la.RollupExitRoot != lb.RollupExitRoot {
			return fmt.Sprintf("imported exit %d l1 leaf context", i)
		}
	}
	return ""
}

func claimLeaf(c agglayertypes.Claim) *agglayertypes.L1InfoTreeLeaf {
	switch cd := c.(type) {
	case *agglayertypes.ClaimFromMainnnet:
		return cd.L1Leaf
	case *agglayertypes.ClaimFromRollup:
		return cd.L1Leaf
	}
	return &agglayertypes.L1InfoTreeLeaf{}
}

func cloneCert(c *agglayertypes.Certificate) *agglayertypes.Certificate {
	b, err := json.Marshal(c)
	if err != nil {
		panic(err)
	}
	var out agglayertypes.Certificate
	if err := json.Unmarshal(b, &out); err != nil {
		panic(err)
	}
	return &out
}

func flipHash(h *common.Hash) { h[7] ^= 0x40 }

// perturbations: each entry mutates one covered field of a clone; scheme says which commitments cover it.
type perturbation struct {
	name    string
	sign    bool // covered by the signing commitment (PP and FEP)
	fepOnly bool // covered by the FEP signing commitment only
	apply   func(c *agglayertypes.Certificate) bool
}

// c10Perturbations: pos selects which exit / imported exit is perturbed (0 first, 1 middle, 2 last).
func c10Perturbations(pos int) []perturbation {
	at := func(n int) int {
		switch pos {
		case 0:
			return 0
		case 1:
			return n / 2
		}
		return n - 1
	}
	firstExit := func(c *agglayertypes.Certificate) *agglayertypes.BridgeExit {
		if len(c.BridgeExits) == 0 {
			return nil
		}
		return c.BridgeExits[at(len(c.BridgeExits))]
	}
	firstImp := func(c *agglayertypes.Certificate) *agglayertypes.ImportedBridgeExit {
		if len(c.ImportedBridgeExits) == 0 {
			return nil
		}
		return c.ImportedBridgeExits[at(len(c.ImportedBridgeExits))]
	}
	onExit := func(f func(e *agglayertypes.BridgeExit)) func(c *agglayertypes.Certificate) bool {
		return func(c *agglayertypes.Certificate) bool {
			if e := firstExit(c); e != nil {
				f(e)
				return true
			}
			return false
		}
	}
	onImp := func(f func(i *agglayertypes.ImportedBridgeExit)) func(c *agglayertypes.Certificate) bool {
		return func(c *agglayertypes.Certificate) bool {
			if i := firstImp(c); i != nil {
				f(i)
				return true
			}
			return false
		}
	}
	onProofs := func(f func(p *agglayertypes.MerkleProof)) func(c *agglayertypes.Certificate) bool {
		return onImp(func(i *agglayertypes.ImportedBridgeExit) {
			switch cd := i.ClaimData.(type) {
			case *agglayertypes.ClaimFromMainnnet:
				f(cd.ProofGERToL1Root)
			case *agglayertypes.ClaimFromRollup:
				f(cd.ProofLERToRER)
			}
		})
	}
	return []perturbation{
		{name: "network id", apply: func(c *agglayertypes.Certificate) bool { c.NetworkID++; return true }},
		{name: "height", fepOnly: true, apply: func(c *agglayertypes.Certificate) bool { c.Height += 256; return true }},
		{name: "prev local exit root", apply: func(c *agglayertypes.Certificate) bool { flipHash(&c.PrevLocalExitRoot); return true }},
		{name: "new local exit root", sign: true, apply: func(c *agglayertypes.Certificate) bool { flipHash(&c.NewLocalExitRoot); return true }},
		{name: "exit leaf type", apply: onExit(func(e *agglayertypes.BridgeExit) { e.LeafType ^= 1 })},
		{name: "exit origin network", apply: onExit(func(e *agglayertypes.BridgeExit) { e.TokenInfo.OriginNetwork += 1 << 16 })},
		{name: "exit origin token", apply: onExit(func(e *agglayertypes.BridgeExit) { e.TokenInfo.OriginTokenAddress[3] ^= 1 })},
		{name: "exit destination network", apply: onExit(func(e *agglayertypes.BridgeExit) { e.DestinationNetwork += 1 << 24 })},
		{name: "exit destination address", apply: onExit(func(e *agglayertypes.BridgeExit) { e.DestinationAddress[19] ^= 0x80 })},
		{name: "exit amount", apply: onExit(func(e *agglayertypes.BridgeExit) {
			e.Amount = new(big.Int).Xor(e.Amount, new(big.Int).Lsh(big.NewInt(1), 200))
		})},
		{name: "exit metadata hash", apply: onExit(func(e *agglayertypes.BridgeExit) {
			if len(e.Metadata) == 0 {
				e.Metadata = crypto.Keccak256([]byte("x"))
			} else {
				e.Metadata = append([]byte{}, e.Metadata...)
				e.Metadata[31] ^= 1
			}
		})},
		{name: "number of exits (drop last)", apply: func(c *agglayertypes.Certificate) bool {
			if len(c.BridgeExits) == 0 {
				return false
			}
			c.BridgeExits = c.BridgeExits[:len(c.BridgeExits)-1]
			return true
		}},
		{name: "imported exit global index leaf", sign: true, apply: onImp(func(i *agglayertypes.ImportedBridgeExit) { i.GlobalIndex.LeafIndex ^= 1 << 20 })},
		{name: "imported exit global index rollup/flag", sign: true, apply: onImp(func(i *agglayertypes.ImportedBridgeExit) {
			if i.GlobalIndex.MainnetFlag {
				i.GlobalIndex.MainnetFlag = false
				i.GlobalIndex.RollupIndex = 9
			} else {
				i.GlobalIndex.RollupIndex += 5
			}
		})},
		{name: "imported exit amount", fepOnly: true, apply: onImp(func(i *agglayertypes.ImportedBridgeExit) {
			i.BridgeExit.Amount = new(big.Int).Add(i.BridgeExit.Amount, big.NewInt(1))
		})},
		{name: "imported exit destination", fepOnly: true, apply: onImp(func(i *agglayertypes.ImportedBridgeExit) { i.BridgeExit.DestinationAddress[0] ^= 2 })},
		{name: "claim proof sibling", apply: onProofs(func(p *agglayertypes.MerkleProof) { flipHash(&p.Proof[17]) })},
		{name: "claim proof root", apply: onProofs(func(p *agglayertypes.MerkleProof) { flipHash(&p.Root) })},
		{name: "claim l1 leaf timestamp", apply: onImp(func(i *agglayertypes.ImportedBridgeExit) { claimLeaf(i.ClaimData).Inner.Timestamp++ })},
		{name: "claim l1 leaf block hash", apply: onImp(func(i *agglayertypes.ImportedBridgeExit) { flipHash(&claimLeaf(i.ClaimData).Inner.BlockHash) })},
		{name: "claim l1 leaf GER", apply: onImp(func(i *agglayertypes.ImportedBridgeExit) { flipHash(&claimLeaf(i.ClaimData).Inner.GlobalExitRoot) })},
		{name: "order of imported exits", sign: true, apply: func(c *agglayertypes.Certificate) bool {
			n := len(c.ImportedBridgeExits)
			if n < 2 || *c.ImportedBridgeExits[0].GlobalIndex == *c.ImportedBridgeExits[n-1].GlobalIndex {
				return false
			}
			c.ImportedBridgeExits[0], c.ImportedBridgeExits[n-1] = c.ImportedBridgeExits[n-1], c.ImportedBridgeExits[0]
			return true
		}},
	}
}

// c10Perturb checks that every single-field perturbation changes the commitment that covers the field.
func c10Perturb(c *agglayertypes.Certificate) (string, int) {
	n := 0
	id0, pp0 := c.Hash(), c.PPHashToSign()
	fep := cloneCert(c)
	fep.AggchainData = &agglayertypes.AggchainDataProof{Proof: []byte{1}, Version: "v", Vkey: []byte{2}, AggchainParams: common.HexToHash("0x1234"), Signature: make([]byte, 65)}
	fep0 := fep.FEPHashToSign()
	// the commitments and the identity recomputed independently from the documented formulas
	if want := refFEPCommitment(fep); fep0 != want {
		return fmt.Sprintf("FEP signing commitment %s differs from the documented formula recomputed over the certificate's content (%s)", fep0, want), 1
	}
	if want := refPPCommitment(c); pp0 != want {
		return fmt.Sprintf("PP signing commitment %s differs from the documented formula recomputed over the certificate's content (%s)", pp0, want), 1
	}
	if want := refCertIdentity(c); id0 != want {
		return fmt.Sprintf("certificate identity hash %s differs from the documented formula recomputed over the certificate's content (%s)", id0, want), 1
	}
	var perts []perturbation
	for pos := 0; pos < 3; pos++ {
		perts = append(perts, c10Perturbations(pos)...)
	}
	for _, p := range perts {
		x := cloneCert(c)
		if !p.apply(x) {
			continue
		}
		n++
		if x.Hash() == id0 {
			return fmt.Sprintf("changing %q does not change the certificate's identity hash", p.name), n
		}
		if p.sign && x.PPHashToSign() == pp0 {
			return fmt.Sprintf("changing %q does not change the PP signing commitment", p.name), n
		}
		if p.sign || p.fepOnly {
			y := cloneCert(fep)
			p.apply(y)
			if y.FEPHashToSign() == fep0 {
				return fmt.Sprintf("changing %q does not change the FEP signing commitment", p.name), n
			}
		}
	}
	// aggchain params are covered by the FEP commitment
	y := cloneCert(fep)
	ap := y.AggchainData.(*agglayertypes.AggchainDataProof)
	ap.AggchainParams[0] ^= 1
	n++
	if y.FEPHashToSign() == fep0 {
		return "changing the aggchain params does not change the FEP signing commitment", n
	}
	return "", n
}

func storedJSON(path string, height uint64) (string, error) {
	d := rawDB(path)
	defer d.Close()
	var js string
	err := d.QueryRow("SELECT signed_certificate FROM certificate_info WHERE height = ?", height).Scan(&js)
	return js, err
}

func c10Case(ch choose.Chooser, cfg walkCfg, rec *ev.Recorder) error {
	cfg.viaGRPC = true
	r, err := runWalk(ch, cfg)
	if err != nil {
		return fmt.Errorf("INCONCLUSIVE: %v", err)
	}
	defer r.cleanup()
	checked := 0
	// submissions are checked at the end; replaced rows are found in the history table (KeepCertificatesHistory)
	r.drain()
	// a byte-identical retry gets the id of the certificate it replaces: the node's stored copy is that of the latest one
	lastWithID := map[common.Hash]int{}
	for k, sub := range r.grpc.subs {
		lastWithID[sub.ID] = k
	}
	for k, sub := range r.grpc.subs {
		desc := fmt.Sprintf("certificate #%d (height %d, %d exits, %d imported)", k, sub.InMem.Height, len(sub.InMem.BridgeExits), len(sub.InMem.ImportedBridgeExits))
		// (1) the signature is the configured signer's over the commitment of what is on the wire
		sigB := sub.Wire.GetAggchainData().GetSignature().GetValue()
		if len(sigB) != 65 {
			return fmt.Errorf("%s: wire message carries no 65-byte signature\n  schedule: %s", desc, r.key())
		}
		commit := wirePPCommitment(sub.Wire)
		pub, e := crypto.SigToPub(commit.Bytes(), normSig(sigB))
		if e != nil || crypto.PubkeyToAddress(*pub) != sub.Signer {
			return fmt.Errorf("%s: the signature on the wire is not the configured signer's signature over the commitment recomputed from the wire message\n  schedule: %s", desc, r.key())
		}
		// (2) covered fields: in memory == wire == stored
		if d := wireVsMem(sub.Wire, sub.InMem); d != "" {
			return fmt.Errorf("%s: wire message differs from the certificate that was signed: %s\n  schedule: %s", desc, d, r.key())
		}
		js, e := storedJSONAny(r.storageDir, sub.ID)
		if e == nil && lastWithID[sub.ID] == k {
			if d := storedVsMem(js, sub.InMem); d != "" {
				return fmt.Errorf("%s: stored copy differs from the certificate that was signed and sent: %s\n  schedule: %s", desc, d, r.key())
			}
			rec.Class("stored_copies_compared")
		}
		// (3) metamorphic: single-field perturbations
		d, n := c10Perturb(sub.InMem)
		rec.ClassN("perturbations", n)
		if d != "" {
			return fmt.Errorf("%s: %s\n  schedule: %s", desc, d, r.key())
		}
		if sub.Signer != verifSignerAddr {
			rec.Class("certificates_signed_after_a_key_rotation")
		}
		nt := len(sub.InMem.BridgeExits) >= 1 && len(sub.InMem.ImportedBridgeExits) >= 1
		rec.Case(nt, fmt.Sprintf("%+v|%s|%d", cfg.node, r.key(), k))
		if nt && rec.WantSample() {
			rec.Sample(map[string]any{"certificate": desc, "schedule": r.key(), "perturbations": n})
		}
		checked++
	}
	if v := r.m.firstViolation("C10"); v != nil {
		return fmt.Errorf("%s\n  schedule: %s", v.Msg, r.key())
	}
	if checked == 0 {
		rec.Case(false, "none|"+r.key())
	}
	return nil
}

// storedJSONAny finds the stored copy of a certificate id in certificate_info or its history table.
func storedJSONAny(path string, id common.Hash) (string, error) {
	d := rawDB(path)
	defer d.Close()
	var js string
	// several attempts can share an id (byte-identical retries): the copy of the latest one is the current row if it has
	// that id, else the replaced row with the highest retry count
	err := d.QueryRow("SELECT signed_certificate FROM (SELECT signed_certificate, retry_count, 1 AS cur FROM certificate_info WHERE certificate_id = ? "+
		"UNION ALL SELECT signed_certificate, retry_count, 0 AS cur FROM certificate_info_history WHERE certificate_id = ?) ORDER BY cur DESC, retry_count DESC LIMIT 1", id.Hex(), id.Hex()).Scan(&js)
	return js, err
}

func TestC10(t *testing.T) {
	rec := ev.For("C10", c10Rule)
	rec.Assume("the commitment formulas are those documented in aggkit (the real Agglayer is not available offline): the check decides 'what is signed is what is sent and stored, and every covered field matters'")
	rapid.Check(t, func(rt *rapid.T) {
		ch := choose.Rapid{T: rt}
		cfg := walkCfg{node: genNodeCfg(ch), steps: rapid.IntRange(8, 30).Draw(rt, "steps"),
			weights: []int{0, 0, 0, 0, 1, 1, 1, 2, 4, 4, 4, 5, 7}, rotate: rapid.Bool().Draw(rt, "keyRotations")}
		if err := c10Case(ch, cfg, rec); err != nil {
			fatal(rt, "%v", err)
		}
	})
}

// refFEPCommitment: keccak(new_ler ‖ keccak(‖ (le32(global_index_i) ‖ exit_hash_i)) ‖ le64(height) ‖ aggchain_params)
func refFEPCommitment(c *agglayertypes.Certificate) common.Hash {
	var chunks []byte
	for _, ib := range c.ImportedBridgeExits {
		chunks = append(chunks, le32(refGlobalIndexOf(ib.GlobalIndex))...)
		chunks = append(chunks, wireExitHash(ib.BridgeExit).Bytes()...)
	}
	params := crypto.Keccak256(nil)
	if p, ok := c.AggchainData.(*agglayertypes.AggchainDataProof); ok {
		params = p.AggchainParams.Bytes()
	}
	h := make([]byte, 8)
	for i := 0; i < 8; i++ {
		h[i] = byte(c.Height >> (8 * i))
	}
	return crypto.Keccak256Hash(c.NewLocalExitRoot.Bytes(), crypto.Keccak256(chunks), h, params)
}

func refProofHash(m *agglayertypes.MerkleProof) common.Hash {
	b := append([]byte{}, m.Root.Bytes()...)
	for _, p := range m.Proof {
		b = append(b, p.Bytes()...)
	}
	return crypto.Keccak256Hash(b)
}

// refCertIdentity: keccak(network_id ‖ height ‖ prev_ler ‖ new_ler ‖ keccak(‖ exit_hash_i) ‖ keccak(‖ imported_exit_hash_i))
func refCertIdentity(c *agglayertypes.Certificate) common.Hash {
	var eh, ih []byte
	for _, e := range c.BridgeExits {
		eh = append(eh, wireExitHash(e).Bytes()...)
	}
	for _, ib := range c.ImportedBridgeExits {
		var claim common.Hash
		l1 := claimLeaf(ib.ClaimData)
		leafHash := crypto.Keccak256Hash(l1.Inner.GlobalExitRoot.Bytes(), l1.Inner.BlockHash.Bytes(), big.NewInt(0).SetUint64(l1.Inner.Timestamp).FillBytes(make([]byte, 8)))
		switch cd := ib.ClaimData.(type) {
		case *agglayertypes.ClaimFromMainnnet:
			claim = crypto.Keccak256Hash(refProofHash(cd.ProofLeafMER).Bytes(), refProofHash(cd.ProofGERToL1Root).Bytes(), leafHash.Bytes())
		case *agglayertypes.ClaimFromRollup:
			claim = crypto.Keccak256Hash(refProofHash(cd.ProofLeafLER).Bytes(), refProofHash(cd.ProofLERToRER).Bytes(), refProofHash(cd.ProofGERToL1Root).Bytes(), leafHash.Bytes())
		}
		gi := crypto.Keccak256Hash(le32(refGlobalIndexOf(ib.GlobalIndex)))
		ih = append(ih, crypto.Keccak256Hash(wireExitHash(ib.BridgeExit).Bytes(), claim.Bytes(), gi.Bytes()).Bytes()...)
	}
	n := make([]byte, 4)
	n[0], n[1], n[2], n[3] = byte(c.NetworkID>>24), byte(c.NetworkID>>16), byte(c.NetworkID>>8), byte(c.NetworkID)
	h := make([]byte, 8)
	for i := 0; i < 8; i++ {
		h[7-i] = byte(c.Height >> (8 * i))
	}
	return crypto.Keccak256Hash(n, h, c.PrevLocalExitRoot.Bytes(), c.NewLocalExitRoot.Bytes(), crypto.Keccak256(eh), crypto.Keccak256(ih))
}

func cryptoSigToAddr(commit common.Hash, sig []byte) (common.Address, error) {
	pub, err := crypto.SigToPub(commit.Bytes(), normSig(sig))
	if err != nil {
		return common.Address{}, err
	}
	return crypto.PubkeyToAddress(*pub), nil
}

func jsonUnmarshal(js string, v any) error { return json.Unmarshal([]byte(js), v) }

// wireExitHashPB recomputes the exit leaf hash from the protobuf bridge exit.
func wireExitHashPB(p *interop.BridgeExit) common.Hash {
	lt := uint8(0)
	if p.GetLeafType() == interop.LeafType_LEAF_TYPE_MESSAGE {
		lt = 1
	}
	mh := common.BytesToHash(crypto.Keccak256(nil))
	if p.GetMetadata() != nil && len(p.GetMetadata().GetValue()) > 0 {
		mh = common.BytesToHash(p.GetMetadata().GetValue())
	}
	return ref.BridgeLeaf(lt, p.GetTokenInfo().GetOriginNetwork(), common.BytesToAddress(p.GetTokenInfo().GetOriginTokenAddress().GetValue()),
		p.GetDestNetwork(), common.BytesToAddress(p.GetDestAddress().GetValue()), new(big.Int).SetBytes(p.GetAmount().GetValue()), mh)
}

// wireFEPCommitment recomputes the FEP commitment from the protobuf message.
func wireFEPCommitment(sub submission) common.Hash {
	p := sub.Wire
	var chunks []byte
	for _, ib := range p.GetImportedBridgeExits() {
		chunks = append(chunks, le32(new(big.Int).SetBytes(ib.GetGlobalIndex().GetValue()))...)
		chunks = append(chunks, wireExitHashPB(ib.GetBridgeExit()).Bytes()...)
	}
	h := make([]byte, 8)
	for i := 0; i < 8; i++ {
		h[i] = byte(p.GetHeight() >> (8 * i))
	}
	params := crypto.Keccak256(nil)
	if g := p.GetAggchainData().GetGeneric(); g != nil {
		params = g.GetAggchainParams().GetValue()
	}
	return crypto.Keccak256Hash(p.GetNewLocalExitRoot().GetValue(), crypto.Keccak256(chunks), h, params)
}
