package harness

import (
	"context"
	"fmt"
	"math/big"
	"sync"
	"testing"
	"time"

	"github.com/agglayer/aggkit/aggsender"
	"github.com/agglayer/aggkit/aggsender/types"
	"github.com/agglayer/aggkit/log"
	"pgregory.net/rapid"

	"verifharness/choose"
	"verifharness/ev"
)

// C18 — each epoch is announced exactly once, at the first block past the threshold.

const c18Rule = "case = (epoch length N, start block, percentage, non-decreasing block sequence) driven through the real " +
	"EpochNotifierPerBlock.Start; non-trivial = the sequence jumps over a threshold block (first qualifying block seen is " +
	"not the threshold block itself) or over a whole epoch; distinct = hash of (N,start,pct,sequence)"

type c18Block struct{ ch chan types.EventNewBlock }

func (b *c18Block) Subscribe(string) <-chan types.EventNewBlock { return b.ch }
func (b *c18Block) GetCurrentBlockNumber() uint64               { return 0 }
func (b *c18Block) String() string                              { return "fake" }

type c18Ev struct {
	Epoch uint64
	At    uint64
}

type c18Sub struct {
	mu  sync.Mutex
	cur uint64
	got []c18Ev
}

func (s *c18Sub) Subscribe(string) <-chan types.EpochEvent { return nil }
func (s *c18Sub) Publish(e types.EpochEvent) {
	s.mu.Lock()
	s.got = append(s.got, c18Ev{e.Epoch, s.cur})
	s.mu.Unlock()
}

type c18Case struct {
	N     uint64
	Start uint64
	Pct   uint64
	Seq   []uint64
}

// c18Expected is the specification, in integer arithmetic.
func c18Expected(c c18Case) (exp []c18Ev, nontrivial bool) {
	notified := map[uint64]bool{}
	maxSeen := c.Start // the starting block is "already seen"
	var lastEpochSeen uint64
	for _, b := range c.Seq {
		if b <= maxSeen {
			continue
		}
		maxSeen = b
		d := b - c.Start
		e := 1 + d/c.N
		// (arbitrary precision: for very long epochs pct*N does not fit 64 bits)
		thr := new(big.Int).Mul(new(big.Int).SetUint64(c.Pct), new(big.Int).SetUint64(c.N))
		if m := new(big.Int).Mul(new(big.Int).SetUint64(c.N-1), big.NewInt(100)); thr.Cmp(m) > 0 {
			thr = m
		}
		if lastEpochSeen != 0 && e > lastEpochSeen+1 {
			nontrivial = true // a whole epoch was skipped
		}
		lastEpochSeen = e
		pos := new(big.Int).Mul(new(big.Int).SetUint64(d%c.N), big.NewInt(100))
		if pos.Cmp(thr) >= 0 && !notified[e] {
			notified[e] = true
			exp = append(exp, c18Ev{e, b})
			// first block of the epoch at/after threshold: ceil(thr/100)
			thrBlock := new(big.Int).Div(new(big.Int).Add(thr, big.NewInt(99)), big.NewInt(100))
			if new(big.Int).SetUint64(d%c.N).Cmp(thrBlock) != 0 {
				nontrivial = true // jumped over the threshold block
			}
		}
	}
	return
}

func c18Run(c c18Case) ([]c18Ev, error) {
	bn := &c18Block{ch: make(chan types.EventNewBlock)}
	sub := &c18Sub{}
	n, err := aggsender.NewEpochNotifierPerBlock(bn, log.WithFields("module", "c18"),
		aggsender.ConfigEpochNotifierPerBlock{StartingEpochBlock: c.Start, NumBlockPerEpoch: uint(c.N), EpochNotificationPercentage: uint(c.Pct)}, sub)
	if err != nil {
		return nil, err
	}
	ctx, cancel := context.WithCancel(context.Background())
	done := make(chan struct{})
	go func() { n.Start(ctx); close(done) }()
	for _, b := range c.Seq {
		sub.mu.Lock()
		sub.cur = b
		sub.mu.Unlock()
		bn.ch <- types.EventNewBlock{BlockNumber: b}
		// barrier: the same block again is "no new block"; once it is received the previous step has completed
		bn.ch <- types.EventNewBlock{BlockNumber: b}
	}
	cancel()
	<-done
	return sub.got, nil
}

func c18Check(c c18Case) error {
	exp, _ := c18Expected(c)
	got, err := c18Run(c)
	if err != nil {
		return fmt.Errorf("constructor rejected valid config %+v: %v", c, err)
	}
	if len(got) != len(exp) {
		return fmt.Errorf("case %+v: got notifications %v, want %v", c, got, exp)
	}
	for i := range exp {
		if got[i] != exp[i] {
			return fmt.Errorf("case %+v: got notifications %v, want %v", c, got, exp)
		}
	}
	return nil
}

func c18Gen(ch choose.Chooser, enum bool, maxN int) c18Case {
	var c c18Case
	if enum {
		c.N = uint64(ch.Int(1, maxN, "N"))
		c.Start = uint64(choose.Pick(ch, []int{0, 5}, "start"))
		c.Pct = uint64(choose.Pick(ch, []int{0, 25, 33, 50, 67, 99}, "pct"))
		w := 3*int(c.N) + 2
		for i := 1; i <= w; i++ {
			if ch.Bool("in") {
				c.Seq = append(c.Seq, c.Start+uint64(i))
			}
		}
		return c
	}
	switch ch.Int(0, 3, "Nkind") {
	case 0:
		c.N = uint64(choose.Pick(ch, []int{1, 2, 3, 7, 10, 100}, "N"))
	case 1:
		c.N = uint64(ch.Int(1, 20, "N"))
	default:
		c.N = uint64(ch.Int(1, 1000000, "N"))
	}
	if ch.Int(0, 7, "veryLongEpochs") == 0 {
		// epochs of 2^58..2^62 blocks (the length comes unchecked from the Agglayer's clock configuration). The notifier
		// compares float64 ratios, so the blocks of these sequences keep well away from the threshold (>= 2 % of an epoch).
		c.N = uint64(1) << uint(choose.Pick(ch, []int{58, 60, 62}, "log2N"))
		c.Start = uint64(ch.Int(0, 1000, "start"))
		c.Pct = uint64(choose.Pick(ch, []int{1, 25, 50, 75, 99}, "pct"))
		unit := c.N / 1000
		epochs := 4
		if c.N == 1<<62 {
			epochs = 2 // block numbers stay below 2^64
		}
		for e := 0; e < epochs; e++ {
			if ch.Int(0, 3, "skipEpoch") == 0 {
				continue
			}
			for _, permille := range []uint64{10, 100, 300, 600, 900, 995} {
				if diff := int64(permille) - int64(c.Pct)*10; diff > -20 && diff < 20 {
					continue
				}
				if ch.Bool("seeBlock") {
					c.Seq = append(c.Seq, c.Start+uint64(e)*c.N+permille*unit)
				}
			}
		}
		if len(c.Seq) == 0 {
			c.Seq = []uint64{c.Start + 300*unit}
		}
		return c
	}
	switch ch.Int(0, 2, "startkind") {
	case 0:
		c.Start = uint64(ch.Int(0, 3, "start"))
	case 1:
		c.Start = uint64(ch.Int(0, 1<<40, "start"))
	default:
		c.Start = uint64(ch.Int(0, 1000, "start"))
	}
	c.Pct = uint64(ch.Int(0, 99, "pct"))
	n := ch.Int(1, 40, "len")
	cur := c.Start
	if ch.Int(0, 9, "belowStart") == 0 && c.Start > 0 {
		// blocks before the first epoch: must be ignored
		c.Seq = append(c.Seq, c.Start-uint64(ch.Int(1, int(min64(c.Start, 5)), "below")))
	}
	for i := 0; i < n; i++ {
		var gap uint64
		switch ch.Int(0, 5, "gapkind") {
		case 0:
			gap = 0 // duplicate of the current block
		case 1, 2:
			gap = 1
		case 3:
			gap = uint64(ch.Int(1, int(min64(c.N, 1<<20)), "gap"))
		default:
			gap = uint64(ch.Int(1, int(min64(5*c.N, 1<<22)), "gap"))
		}
		cur += gap
		c.Seq = append(c.Seq, cur)
	}
	return c
}

func min64(a, b uint64) uint64 {
	if a < b {
		return a
	}
	return b
}

func TestC18(t *testing.T) {
	rec := ev.For("C18", c18Rule)
	var rp struct {
		Case c18Case `json:"case"`
	}
	if loadReplay(&rp) {
		if err := c18Check(rp.Case); err != nil {
			t.Fatalf("replay: %v", err)
		}
		return
	}
	// exhaustive part (odometer enumerator), sharded over the first choice.
	maxN := 3
	if thorough() {
		maxN = 4
	}
	k, n := shard()
	e := &choose.Enum{}
	idx := 0
	enumerated := 0
	for {
		c := c18Gen(e, true, maxN)
		if idx%n == k && firstBatch() {
			_, nt := c18Expected(c)
			rec.Case(nt, fmt.Sprint(c))
			enumerated++
			if nt && rec.WantSample() && len(c.Seq) > 3 {
				rec.Sample(map[string]any{"N": c.N, "start": c.Start, "pct": c.Pct, "blocks": c.Seq, "mode": "enumerated"})
			}
			if err := c18Check(c); err != nil {
				p := saveReplay("C18", map[string]any{"case": c})
				t.Fatalf("%v (replay %s)", err, p)
			}
		}
		idx++
		if !e.Next() {
			break
		}
	}
	rec.Set("enumerated_cases", enumerated)
	rec.Set("enumeration_bounds", fmt.Sprintf("all N<=%d x start in {0,5} x pct in {0,25,33,50,67,99} x all subsets of the next 3N+2 blocks (this shard: every %d-th case)", maxN, n))
	rec.Assume("epoch length <= 10^6 in the random part (the notifier compares float64 ratios; equal rationals give equal floats, and ratios closer than 2^-53 need N > 10^7)")
	// random part
	rapid.Check(t, func(rt *rapid.T) { c18Prop(rt, rec) })
}

func c18Prop(rt *rapid.T, rec *ev.Recorder) {
	c := c18Gen(choose.Rapid{T: rt}, false, 0)
	_, nt := c18Expected(c)
	rec.Case(nt, fmt.Sprint(c))
	if nt {
		rec.Class("random_nontrivial")
	}
	if err := c18Check(c); err != nil {
		rt.Fatalf("%v", err)
	}
	if rapid.IntRange(0, 3).Draw(rt, "throughRealSubscriptions") == 0 && len(c.Seq) <= 40 {
		names := rapid.SliceOfN(rapid.SampledFrom([]string{"aggsender", "aggsender", "rpc", ""}), 1, 3).Draw(rt, "subscriberNames")
		if err := c18CheckSubscribers(c, names); err != nil {
			rt.Fatalf("%v", err)
		}
		rec.Class("cases_through_the_real_subscription_channels")
	}
}

// c18CheckSubscribers: the same case through the notifier's own subscription mechanism (the default GenericSubscriber):
// every subscription - whatever name it was made under - receives exactly one notification per expected epoch. Deliveries
// are asynchronous (one goroutine per event and channel), so each channel is judged as a multiset once all blocks have
// been handled; a notification still missing after 3 s of idleness is reported, an extra one immediately.
func c18CheckSubscribers(c c18Case, names []string) error {
	exp, _ := c18Expected(c)
	bn := &c18Block{ch: make(chan types.EventNewBlock)}
	n, err := aggsender.NewEpochNotifierPerBlock(bn, log.WithFields("module", "c18"),
		aggsender.ConfigEpochNotifierPerBlock{StartingEpochBlock: c.Start, NumBlockPerEpoch: uint(c.N), EpochNotificationPercentage: uint(c.Pct)}, nil)
	if err != nil {
		return fmt.Errorf("constructor rejected valid config %+v: %v", c, err)
	}
	type inbox struct {
		mu  sync.Mutex
		got map[uint64]int
		n   int
	}
	boxes := make([]*inbox, len(names))
	stop := make(chan struct{})
	for i, name := range names {
		ch := n.Subscribe(name)
		b := &inbox{got: map[uint64]int{}}
		boxes[i] = b
		go func() {
			for {
				select {
				case e := <-ch:
					b.mu.Lock()
					b.got[e.Epoch]++
					b.n++
					b.mu.Unlock()
				case <-stop:
					return
				}
			}
		}()
	}
	defer close(stop)
	ctx, cancel := context.WithCancel(context.Background())
	done := make(chan struct{})
	go func() { n.Start(ctx); close(done) }()
	for _, b := range c.Seq {
		bn.ch <- types.EventNewBlock{BlockNumber: b}
		bn.ch <- types.EventNewBlock{BlockNumber: b}
	}
	cancel()
	<-done
	deadline := time.Now().Add(3 * time.Second)
	for {
		complete := true
		for i, b := range boxes {
			b.mu.Lock()
			cnt := b.n
			var extra string
			for _, e := range exp {
				if b.got[e.Epoch] > 1 {
					extra = fmt.Sprintf("epoch %d announced %d times", e.Epoch, b.got[e.Epoch])
				}
			}
			if len(b.got) > len(exp) || cnt > len(exp) {
				extra = fmt.Sprintf("%d notifications for %d expected epochs", cnt, len(exp))
			}
			b.mu.Unlock()
			if extra != "" {
				return fmt.Errorf("case %+v: subscription #%d (name %q of %q) received %s (want one per epoch of %v)", c, i, names[i], names, extra, exp)
			}
			if cnt < len(exp) {
				complete = false
			}
		}
		if complete {
			return nil
		}
		if time.Now().After(deadline) {
			for i, b := range boxes {
				b.mu.Lock()
				cnt := b.n
				b.mu.Unlock()
				if cnt < len(exp) {
					return fmt.Errorf("case %+v: subscription #%d (name %q of %q) received %d of the %d notifications %v, nothing more for 3 s after the last block was handled", c, i, names[i], names, cnt, len(exp), exp)
				}
			}
			return nil
		}
		time.Sleep(200 * time.Microsecond)
	}
}

// FuzzC18: the same property driven by Go's coverage-guided fuzzer through rapid's byte-stream adapter (thorough tier).
func FuzzC18(f *testing.F) {
	rec := ev.For("C18", c18Rule)
	f.Fuzz(rapid.MakeFuzz(func(rt *rapid.T) { c18Prop(rt, rec) }))
}
