package harness

import (
	"fmt"
	"testing"

	"github.com/agglayer/aggkit/l1infotreesync"
	"github.com/ethereum/go-ethereum/common"
	"pgregory.net/rapid"

	"verifharness/ev"
	"verifharness/ref"
)

// C11 — the L1 info tree and rollup exit tree mirror the L1 contracts.

const c11Rule = "case = generated L1 history (info updates, consistent root announcements, batch verifications for arbitrary rollup ids " +
	"incl. repeated ids, zero and unchanged exit roots, several events per block, arbitrary timestamps/parent hashes, restarts) " +
	"fed to the real L1 info tree processor; oracle = reference GlobalExitRootV2 leaf/root algorithm and reference sparse rollup " +
	"exit tree (tied to the real contracts by the EVM leg); non-trivial = >=2 leaves and >=2 effective batch verifications for >=2 " +
	"distinct rollup ids; distinct = hash of per-block event kinds and rollup ids"

func sameLeaf(a *l1infotreesync.L1InfoTreeLeaf, b l1infotreesync.L1InfoTreeLeaf) string {
	if a == nil {
		return "nil leaf"
	}
	if *a != b {
		return fmt.Sprintf("got %+v want %+v", *a, b)
	}
	return ""
}

func countRows(path, table string) int {
	d := rawDB(path)
	defer d.Close()
	var n int
	if err := d.QueryRow("SELECT COUNT(*) FROM " + table).Scan(&n); err != nil {
		panic(err)
	}
	return n
}

func c11Prop(rt *rapid.T, rec *ev.Recorder, maxBlocks int) {
	opts := genOpts{withV2: true, maxEvents: 5, forceMulti: rapid.Bool().Draw(rt, "multi")}
	n := rapid.IntRange(1, maxBlocks).Draw(rt, "nBlocks")
	hist := genHistory(rt, kL1Info, nil, n, opts)
	path, clean := tmpDB("c11")
	defer clean()
	S, err := openStore(kL1Info, path)
	if err != nil {
		fatal(rt, "open: %v", err)
	}
	defer func() { S.close() }()
	for _, b := range hist {
		if rapid.IntRange(0, 7).Draw(rt, "restart") == 0 {
			if err := S.restart(); err != nil {
				fatal(rt, "restart: %v", err)
			}
		}
		if err := S.process(b); err != nil {
			fatal(rt, "processor refused valid L1 block %s: %v", b.brief(), err)
		}
	}
	w := worldOf(kL1Info, hist)
	l1 := S.l1
	// --- L1 info tree: one leaf per update, chain order, consecutive indices, contract's leaf and root values
	for i, want := range w.infoLeaves {
		got, err := l1.GetInfoByIndex(bg, uint32(i))
		if err != nil {
			fatal(rt, "GetInfoByIndex(%d): %v", i, err)
		}
		if d := sameLeaf(got, want); d != "" {
			fatal(rt, "leaf %d differs from the %d-th L1 info update of the chain: %s", i, i+1, d)
		}
		if h := ref.L1InfoLeaf(ref.GER(want.MainnetExitRoot, want.RollupExitRoot), want.PreviousBlockHash, want.Timestamp); got.Hash != h {
			fatal(rt, "leaf %d hash %s, contract getLeafValue gives %s", i, got.Hash, h)
		}
		r, err := l1.GetL1InfoTreeRootByIndex(bg, uint32(i))
		if err != nil || r.Hash != w.infoRoots[i] || r.Index != uint32(i) {
			fatal(rt, "root after leaf %d: %s idx %d (%v), contract algorithm gives %s", i, r.Hash, r.Index, err, w.infoRoots[i])
		}
		byGer, err := l1.GetInfoByGlobalExitRoot(want.GlobalExitRoot)
		if err != nil {
			fatal(rt, "GetInfoByGlobalExitRoot(leaf %d): %v", i, err)
		}
		if d := sameLeaf(byGer, want); d != "" {
			fatal(rt, "lookup by GER of leaf %d: %s", i, d)
		}
	}
	if _, err := l1.GetInfoByIndex(bg, uint32(len(w.infoLeaves))); err == nil {
		fatal(rt, "GetInfoByIndex(%d) succeeds although only %d updates happened", len(w.infoLeaves), len(w.infoLeaves))
	}
	if nl := len(w.infoLeaves); nl > 0 {
		last, err := l1.GetLastInfo()
		if err != nil || sameLeaf(last, w.infoLeaves[nl-1]) != "" {
			fatal(rt, "GetLastInfo: %v %v", last, err)
		}
		first, err := l1.GetFirstInfo()
		if err != nil || sameLeaf(first, w.infoLeaves[0]) != "" {
			fatal(rt, "GetFirstInfo: %v %v", first, err)
		}
		lr, err := l1.GetLastL1InfoTreeRoot(bg)
		if err != nil || lr.Hash != w.infoRoots[nl-1] {
			fatal(rt, "GetLastL1InfoTreeRoot: %s %v want %s", lr.Hash, err, w.infoRoots[nl-1])
		}
		// latest info until a block: the last leaf at or below it
		blk := hist[rapid.IntRange(0, len(hist)-1).Draw(rt, "untilBlock")].Num
		var want *l1infotreesync.L1InfoTreeLeaf
		for i := range w.infoLeaves {
			if w.infoLeaves[i].BlockNumber <= blk {
				want = &w.infoLeaves[i]
			}
		}
		got, err := l1.GetLatestInfoUntilBlock(bg, blk)
		if want == nil {
			if err == nil {
				fatal(rt, "GetLatestInfoUntilBlock(%d) returned leaf %d although no update happened at or below that block", blk, got.L1InfoTreeIndex)
			}
		} else if err != nil || sameLeaf(got, *want) != "" {
			fatal(rt, "GetLatestInfoUntilBlock(%d) = %v (%v), want leaf %d", blk, got, err, want.L1InfoTreeIndex)
		}
	}
	if c := countRows(path, "l1info_leaf"); c != len(w.infoLeaves) {
		fatal(rt, "%d leaves stored for %d L1 info updates", c, len(w.infoLeaves))
	}
	// --- rollup exit tree: last non-zero exit root per rollup; a root per effective update, equal to the rollup manager's
	if c := countRows(path, "verify_batches"); c != len(w.rollupHist) {
		fatal(rt, "%d verify_batches rows for %d effective batch verifications (zero / unchanged exit roots must leave no row)", c, len(w.rollupHist))
	}
	if c := countRows(path, "rollup_exit_root"); c != len(w.rollupHist) {
		fatal(rt, "%d rollup exit roots recorded for %d effective batch verifications", c, len(w.rollupHist))
	}
	if nv := len(w.rollupHist); nv > 0 {
		lr, err := l1.GetLastRollupExitRoot(bg)
		if err != nil || lr.Hash != w.rollupHist[nv-1].Root {
			fatal(rt, "GetLastRollupExitRoot = %s (%v), rollup manager algorithm gives %s", lr.Hash, err, w.rollupHist[nv-1].Root)
		}
		for id, val := range w.rollupVal {
			got, err := l1.GetLocalExitRoot(bg, id, lr.Hash)
			if err != nil || got != val {
				fatal(rt, "GetLocalExitRoot(rollup %d) = %s (%v), last non-zero verified exit root is %s", id, got, err, val)
			}
			vb, err := l1.GetLastVerifiedBatches(id)
			if err != nil || vb.ExitRoot != val {
				fatal(rt, "GetLastVerifiedBatches(%d) = %v (%v), want exit root %s", id, vb, err, val)
			}
		}
	} else if _, err := l1.GetLastRollupExitRoot(bg); err == nil {
		fatal(rt, "a rollup exit root is reported although no effective batch verification happened")
	}
	// each stored verify_batches row carries the root of its own version
	d := rawDB(path)
	rows, err := d.Query("SELECT rollup_id, exit_root, rollup_exit_root FROM verify_batches ORDER BY block_num, block_pos")
	if err != nil {
		panic(err)
	}
	vi := 0
	for rows.Next() {
		var id uint32
		var er, rer string
		_ = rows.Scan(&id, &er, &rer)
		v := w.rollupHist[vi]
		if common.HexToHash(rer) != v.Root || v.Leaves[id] != common.HexToHash(er) {
			rows.Close()
			d.Close()
			fatal(rt, "verify_batches row %d (rollup %d): recorded rollup exit root %s, rollup manager algorithm gives %s", vi, id, rer, v.Root)
		}
		vi++
	}
	rows.Close()
	d.Close()
	ids := map[uint32]bool{}
	for _, v := range w.rollupHist {
		for id := range v.Leaves {
			ids[id] = true
		}
	}
	nt := len(w.infoLeaves) >= 2 && len(w.rollupHist) >= 2 && len(ids) >= 2
	rec.Case(nt, fmt.Sprint(briefs(hist)))
	rec.ClassN("leaves", len(w.infoLeaves))
	rec.ClassN("effective_verifications", len(w.rollupHist))
	if nt && rec.WantSample() {
		rec.Sample(map[string]any{"blocks": briefs(hist), "leaves": len(w.infoLeaves), "rollup_versions": len(w.rollupHist)})
	}
}

func TestC11(t *testing.T) {
	rec := ev.For("C11", c11Rule)
	rec.Assume("a rollup's exit root never returns to an earlier value and GERs are unique (the contracts guarantee both; the root tables are keyed by hash)")
	rec.Assume("timestamps / batch numbers below 2^63 (database/sql refuses uint64 values with the high bit set)")
	mb := 12
	if thorough() {
		mb = 40
	}
	rapid.Check(t, func(rt *rapid.T) { c11Prop(rt, rec, mb) })
}
