package harness

import (
	"fmt"
	"os"
	"strings"
	"testing"

	agglayertypes "github.com/agglayer/aggkit/agglayer/types"
	aggsenderdb "github.com/agglayer/aggkit/aggsender/db"
	aggsendertypes "github.com/agglayer/aggkit/aggsender/types"
	"github.com/agglayer/aggkit/log"
	"github.com/ethereum/go-ethereum/common"
	"pgregory.net/rapid"

	"verifharness/choose"
	"verifharness/ev"
)

// C13 — certificate bookkeeping survives crashes and a lost database.

const c13Rule = "case = a generated prefix schedule (0-4 certificates in generated Agglayer states) followed by a crash plan: process death " +
	"at SendCertificate entry / after the Agglayer recorded the certificate but before it was stored / after the step; loss of " +
	"the certificate database at a step boundary; then restart (aggsender.New on the same or a fresh file, real start-up " +
	"reconciliation through the real gRPC client) and further ticks; several plans per case; separately, every row-writing " +
	"statement of SaveLastSentCertificate's transaction is failed in turn (SQL trigger) and the table must be unchanged; " +
	"oracle = after restart every submitted certificate passes the chain checks (height, previous exit root, first block, no " +
	"undecided predecessor), start-up only refuses in genuinely contradictory situations, one row per height; non-trivial = a " +
	"crash or DB loss with >=1 certificate known to the Agglayer followed by >=1 successful submission; distinct = hash of (schedule, plan)"

const c13SigRetryCrash = "kind=startup-refuses-forever local=InError-at-height-h agglayer=different-certificate-at-height-h (crash between submitting a retry and storing it)"

func removeDB(path string) {
	for _, suf := range []string{"", "-wal", "-shm"} {
		_ = os.Remove(path + suf)
	}
}

func c13Case(ch choose.Chooser, rec *ev.Recorder, cfg walkCfg) error {
	cfg.viaGRPC = true
	r, err := runWalk(ch, cfg)
	if err != nil {
		return fmt.Errorf("INCONCLUSIVE: %v", err)
	}
	defer r.cleanup()
	nPlans := ch.Int(1, 3, "nPlans")
	nt := false
	for p := 0; p < nPlans; p++ {
		known := len(r.m.certs)
		plan := choose.Pick(ch, []string{"crash-before-submit", "crash-after-submit", "crash-after-submit", "restart", "db-loss", "db-loss", "contradiction"}, "plan")
		if plan == "contradiction" {
			return c13Contradiction(ch, rec, r, cfg)
		}
		r.trace = append(r.trace, "|"+plan)
		crashed := ""
		switch plan {
		case "crash-before-submit", "crash-after-submit":
			// optionally the certificate that will be in flight at the crash is the 2nd or 3rd attempt at its height: the
			// Agglayer rejects the earlier attempts first
			for e, nErr := 0, choose.Pick(ch, []int{0, 0, 1, 2}, "rejectedAttemptsBeforeCrash"); e < nErr; e++ {
				for i := 0; i < 6 && r.m.undecided() == nil; i++ {
					r.trace = append(r.trace, doAction(ch, r, 0))
					r.node.step(true)
				}
				if r.m.undecided() == nil {
					break
				}
				r.trace = append(r.trace, doAction(ch, r, 5))
				r.node.step(false)
				r.trace = append(r.trace, "status")
				rec.Class("rejected_attempts_before_crash")
			}
			r.m.mu.Lock()
			r.m.crashAt = strings.TrimPrefix(plan, "crash-")
			r.m.mu.Unlock()
			// drive until the crash point is reached (the node must get to a submission) or give up
			for i := 0; i < 12 && crashed == ""; i++ {
				switch ch.Int(0, 3, "untilCrash") {
				case 0:
					r.trace = append(r.trace, doAction(ch, r, 0))
				case 1:
					r.m.settleFully()
					r.trace = append(r.trace, "settle")
				case 2:
					crashed = r.node.step(false)
					r.trace = append(r.trace, "status")
				default:
					crashed = r.node.step(true)
					r.trace = append(r.trace, "epoch")
				}
			}
			r.m.mu.Lock()
			r.m.crashAt = ""
			r.m.mu.Unlock()
			if crashed != "" {
				r.trace = append(r.trace, "CRASH("+crashed+")")
			}
		case "db-loss":
			removeDB(r.storageDir)
			r.trace = append(r.trace, "DBLOST")
		}
		// between the death and the restart the Agglayer may move on
		for i, n := 0, ch.Int(0, 2, "agglayerMovesWhileDown"); i < n; i++ {
			switch ch.Int(0, 2, "moveKind") {
			case 0:
				r.trace = append(r.trace, doAction(ch, r, 3))
			case 1:
				r.trace = append(r.trace, doAction(ch, r, 4))
			default:
				r.trace = append(r.trace, doAction(ch, r, 5))
			}
		}
		// restart: a new instance on the same file (or a fresh one after the loss); the operator may have changed the
		// configuration in the meantime (retry policy, size limit, last L2 block, require-one-bridge)
		if ch.Int(0, 3, "operatorChangesConfigBeforeRestart") == 0 {
			nc := genNodeCfg(ch)
			nc.Key = cfg.node.Key
			if r.w.jumped {
				nc.MaxCertSize = 0 // see jWorld.noJumps
			}
			r.w.noJumps = r.w.noJumps || nc.MaxCertSize > 0
			cfg.node = nc
			r.trace = append(r.trace, fmt.Sprintf("CFG%+v", nc))
			rec.Class("restarts_with_a_changed_configuration")
		}
		preViol := len(r.m.violations)
		node, err := newASNode(r.w, r.grpc, r.storageDir, cfg.node)
		if err != nil {
			return fmt.Errorf("restart: aggsender.New failed: %v\n  history: %s", err, r.key())
		}
		r.node = node
		serr := node.startup(r.m, 4)
		if serr != nil {
			// give the Agglayer the chance to decide what is pending, then try again: refusing while something is
			// undecided can be a legitimate "wait"
			r.m.settleFully()
			serr = node.startup(r.m, 4)
		}
		if serr != nil {
			sig := c13Signature(r)
			if sig != "" && rec.IsKnown(sig) {
				rec.Class("excluded_known_retry_crash")
				rec.Case(false, r.key())
				return nil
			}
			return fmt.Errorf("after %s and restart, start-up reconciliation keeps refusing although the node's records do not contradict the Agglayer's: %v\n  [signature: %s]\n  history: %s", plan, serr, sig, r.key())
		}
		r.trace = append(r.trace, "RESTARTED")
		// continue: new blocks, ticks, Agglayer decisions (sometimes starting with one more rejection and its retry)
		before := len(r.m.certs)
		if ch.Int(0, 2, "rejectionAfterRestart") == 0 && r.m.undecided() != nil {
			r.trace = append(r.trace, doAction(ch, r, 5))
			r.node.step(false)
			r.node.step(true)
			r.trace = append(r.trace, "status", "epoch")
		}
		for i, n := 0, ch.Int(2, 10, "after"); i < n; i++ {
			r.trace = append(r.trace, doAction(ch, r, choose.Pick(ch, []int{0, 0, 1, 1, 2, 3, 4, 4, 5}, "action")))
		}
		r.drain()
		if v := firstViolationFrom(r.m, preViol, "C02"); v != nil {
			return fmt.Errorf("after %s and restart: %s\n  history: %s", plan, v.Msg, r.key())
		}
		if s := r.storageCheck(); s != "" {
			return fmt.Errorf("after %s and restart: %s\n  history: %s", plan, s, r.key())
		}
		if s := r.progressCheck(cfg.node, rec); s != "" {
			return fmt.Errorf("after %s and restart: %s\n  history: %s", plan, s, r.key())
		}
		if (plan != "restart" || crashed != "") && known >= 1 && len(r.m.certs) > before {
			nt = true
		}
		rec.Class("plan_" + plan)
	}
	rec.Case(nt, r.key())
	if nt && rec.WantSample() {
		rec.Sample(map[string]any{"history": r.key(), "certificates_received_by_agglayer": len(r.m.certs)})
	}
	return nil
}

// c13Contradiction: the Agglayer's records are made to contradict the node's (a foreign certificate at the height of the
// node's last, non-error certificate; or the Agglayer has lost the node's last certificates). On restart the node must refuse.
func c13Contradiction(ch choose.Chooser, rec *ev.Recorder, r *walkRes, cfg walkCfg) error {
	d := rawDB(r.storageDir)
	var h uint64
	var id string
	var st int
	err := d.QueryRow("SELECT height, certificate_id, status FROM certificate_info ORDER BY height DESC LIMIT 1").Scan(&h, &id, &st)
	d.Close()
	if err != nil {
		rec.Case(false, r.key()+"|contradiction-impossible")
		return nil // nothing stored locally: no contradiction can be built
	}
	r.m.mu.Lock()
	last := r.m.lastAtHeight(h)
	kind := "none"
	switch {
	case last == nil || last.ID != common.HexToHash(id):
		// the local record is not the Agglayer's latest for that height (e.g. a lost response): not a clean base
	case agglayertypes.CertificateStatus(st) != agglayertypes.InError && ch.Bool("foreignCertificate"):
		// a different certificate id for the same height while the local one is not in error
		delete(r.m.byID, last.ID)
		last.ID = common.BytesToHash(append([]byte("foreign"), last.ID[:20]...))
		r.m.byID[last.ID] = last
		kind = "foreign-certificate-at-local-height"
	default:
		// the Agglayer is behind: it has lost everything from the local height on
		var keep []*mCert
		for _, c := range r.m.certs {
			if c.Cert.Height < h {
				keep = append(keep, c)
			} else {
				delete(r.m.byID, c.ID)
			}
		}
		r.m.certs = keep
		r.m.lastSettled = nil
		for _, c := range keep {
			if c.Status == agglayertypes.Settled {
				r.m.lastSettled = c
			}
		}
		kind = "agglayer-behind-local"
	}
	r.m.mu.Unlock()
	if kind == "none" {
		rec.Case(false, r.key()+"|contradiction-impossible")
		return nil
	}
	r.trace = append(r.trace, "|contradiction:"+kind)
	before := len(r.m.certs)
	node, err := newASNode(r.w, r.grpc, r.storageDir, cfg.node)
	if err != nil {
		return fmt.Errorf("restart: aggsender.New failed: %v", err)
	}
	r.node = node
	serr := node.startup(r.m, 3)
	rec.Class("plan_contradiction_" + kind)
	rec.Case(true, r.key())
	if serr == nil {
		return fmt.Errorf("the node's records contradict the Agglayer's (%s: local last certificate %d/%s status %s) but start-up reconciliation proceeded\n  history: %s",
			kind, h, id[:12], agglayertypes.CertificateStatus(st), r.key())
	}
	if len(r.m.certs) != before {
		return fmt.Errorf("a certificate was submitted although start-up refused (%s)\n  history: %s", kind, r.key())
	}
	return nil
}

// progressCheck: "its next certificate has the correct height ..." presupposes that there is a next certificate. After the
// final drain (faults stopped, the Agglayer settles whatever is undecided, status and epoch ticks until nothing moves) every
// L2 bridge exit at or below the configured last block must be covered by a settled certificate. Not judged: configurations with a
// certificate size limit (a range cut down to blocks without events is not sent, by policy, and the next attempt starts from
// the same block again), and observation O6 (after a lost
// database an InError certificate whose Agglayer header carries no previous exit root cannot be retried at height > 0).
func (r *walkRes) progressCheck(nc nodeCfg, rec *ev.Recorder) string {
	if nc.MaxCertSize > 0 {
		return ""
	}
	r.m.mu.Lock()
	defer r.m.mu.Unlock()
	if n := len(r.m.certs); n > 0 {
		last := r.m.certs[n-1]
		if last.Status == agglayertypes.InError && !last.WithPrev && last.Cert.Height > 0 {
			d := rawDB(r.storageDir)
			var cnt int
			err := d.QueryRow("SELECT count(*) FROM certificate_info WHERE height = ?", last.Cert.Height-1).Scan(&cnt)
			d.Close()
			if err == nil && cnt == 0 {
				rec.Class("progress_not_judged_observation_O6")
				return ""
			}
		}
	}
	settledTo, has := uint64(0), false
	if r.m.lastSettled != nil {
		settledTo, has = r.m.lastSettled.To, true
	}
	for _, b := range r.w.l2blocks {
		if len(b.Bridges) == 0 || (nc.MaxL2Block > 0 && b.Num > nc.MaxL2Block) {
			continue
		}
		if !has || b.Num > settledTo {
			st := "none"
			if n := len(r.m.certs); n > 0 {
				st = fmt.Sprintf("height %d, %s", r.m.certs[n-1].Cert.Height, r.m.certs[n-1].Status)
			}
			return fmt.Sprintf("the node stopped making progress: L2 block %d holds a bridge exit, the last settled certificate ends at block %d (any settled: %v), the Agglayer's last certificate is [%s], nothing is undecided, and repeated status and epoch ticks produce no certificate (node's last error: %q; config %+v)", b.Num, settledTo, has, st, r.node.a.VerifLastError(), nc)
		}
	}
	rec.Class("progress_checked_after_restart")
	return ""
}

func firstViolationFrom(m *mAgglayer, from int, prop string) *violation {
	m.mu.Lock()
	defer m.mu.Unlock()
	for i := from; i < len(m.violations); i++ {
		if m.violations[i].Prop == prop {
			return &m.violations[i]
		}
	}
	return nil
}

// c13Signature recognises the structural situation of finding F5: the local last certificate is InError at height h and the
// Agglayer's latest certificate is a different one at the same height.
func c13Signature(r *walkRes) string {
	d := rawDB(r.storageDir)
	defer d.Close()
	var h uint64
	var id string
	var st int
	if err := d.QueryRow("SELECT height, certificate_id, status FROM certificate_info ORDER BY height DESC LIMIT 1").Scan(&h, &id, &st); err != nil {
		return ""
	}
	if agglayertypes.CertificateStatus(st) != agglayertypes.InError {
		return ""
	}
	last := r.m.lastAtHeight(h)
	if last != nil && last.ID != common.HexToHash(id) {
		return c13SigRetryCrash
	}
	return ""
}

// c13Storage: every row-writing statement of the save transaction fails in turn; a failed write leaves the record intact.
func c13Storage(rt *rapid.T, rec *ev.Recorder) {
	path, clean := tmpDB("c13store")
	defer clean()
	keep := rapid.Bool().Draw(rt, "keepHistory")
	st, err := aggsenderdb.NewAggSenderSQLStorage(log.WithFields("module", "c13"), aggsenderdb.AggSenderSQLStorageConfig{DBPath: path, KeepCertificatesHistory: keep})
	if err != nil {
		fatal(rt, "INCONCLUSIVE: storage: %v", err)
	}
	mk := func(h uint64, retry int, tag byte) aggsendertypes.Certificate {
		js := fmt.Sprintf(`{"height":%d,"tag":%d}`, h, tag)
		prev := common.Hash{tag}
		return aggsendertypes.Certificate{Header: &aggsendertypes.CertificateHeader{Height: h, RetryCount: retry, CertificateID: common.Hash{tag, byte(h), byte(retry)},
			PreviousLocalExitRoot: &prev, NewLocalExitRoot: common.Hash{tag, 1}, FromBlock: h*10 + 1, ToBlock: h*10 + 9, Status: agglayertypes.Pending,
			CreatedAt: 1000 + uint32(h), UpdatedAt: 1000 + uint32(h), CertType: aggsendertypes.CertificateTypePP, CertSource: aggsendertypes.CertificateSourceLocal}, SignedCertificate: &js}
	}
	// a fault-free twin storage gives the number of rows the transaction writes and the expected final state
	path2, clean2 := tmpDB("c13twin")
	defer clean2()
	st2, err := aggsenderdb.NewAggSenderSQLStorage(log.WithFields("module", "c13"), aggsenderdb.AggSenderSQLStorageConfig{DBPath: path2, KeepCertificatesHistory: keep})
	if err != nil {
		fatal(rt, "INCONCLUSIVE: storage: %v", err)
	}
	n := rapid.IntRange(0, 3).Draw(rt, "existing")
	for h := 0; h < n; h++ {
		for _, s := range []*aggsenderdb.AggSenderSQLStorage{st, st2} {
			if err := s.SaveLastSentCertificate(bg, mk(uint64(h), 0, 1)); err != nil {
				fatal(rt, "storage refused a valid certificate: %v", err)
			}
		}
	}
	// the write under test: a new height, or a replacement at the last height (retry)
	replace := n > 0 && rapid.Bool().Draw(rt, "replace")
	h := uint64(n)
	retry := 0
	if replace {
		h, retry = uint64(n-1), 1
	}
	cert := mk(h, retry, 2)
	inj2 := newFaultInjector(path2)
	inj2.arm(0)
	if err := st2.SaveLastSentCertificate(bg, cert); err != nil {
		inj2.disarm()
		inj2.close()
		fatal(rt, "storage refused a valid certificate: %v", err)
	}
	inj2.disarm()
	total := inj2.count()
	inj2.exec("DROP TABLE vf_cnt")
	inj2.close()
	want := dumpTables(path2)
	inj := newFaultInjector(path)
	defer inj.close()
	for k := 1; k <= total; k++ {
		before := dumpTables(path)
		inj.arm(k)
		err := st.SaveLastSentCertificate(bg, cert)
		inj.disarm()
		if err == nil {
			fatal(rt, "SaveLastSentCertificate succeeded although statement %d/%d of its transaction failed (replace=%v keepHistory=%v)", k, total, replace, keep)
		}
		if d := diffDumps(before, dumpTables(path)); d != "" {
			fatal(rt, "a failed SaveLastSentCertificate (statement %d/%d, replace=%v keepHistory=%v) changed the stored records:\n%s", k, total, replace, keep, d)
		}
		rec.Case(replace, fmt.Sprintf("store|%d|%v|%v|%d", n, replace, keep, k))
	}
	if err := st.SaveLastSentCertificate(bg, cert); err != nil {
		fatal(rt, "retry after the fault was removed fails: %v", err)
	}
	if d := diffDumps(want, dumpTables(path)); d != "" {
		fatal(rt, "after failed attempts and a successful retry the records differ from a fault-free save:\n%s", d)
	}
	rec.Class("storage_fault_enumerations")
	rec.ClassN("storage_faults", total)
}

func TestC13(t *testing.T) {
	rec := ev.For("C13", c13Rule)
	rec.Assume("a process death is modelled by a panic raised inside the Agglayer client call and recovered at the step boundary; no DB transaction is open at those points, so unwinding is equivalent to dying")
	rec.Assume("SQLite's own crash atomicity is trusted")
	rapid.Check(t, func(rt *rapid.T) {
		if rapid.IntRange(0, 4).Draw(rt, "kind") == 0 {
			c13Storage(rt, rec)
			return
		}
		ch := choose.Rapid{T: rt}
		cfg := walkCfg{node: genNodeCfg(ch), steps: rapid.IntRange(0, 20).Draw(rt, "prefixSteps"),
			weights: []int{0, 0, 0, 1, 1, 1, 2, 3, 4, 4, 5, 7}}
		if err := c13Case(ch, rec, cfg); err != nil {
			fatal(rt, "%v", err)
		}
	})
}
