package harness

import (
	"context"
	"fmt"
	"math/big"
	"sync"
	"testing"

	interop "buf.build/gen/go/agglayer/interop/protocolbuffers/go/agglayer/interop/types/v1"
	proverv1 "buf.build/gen/go/agglayer/provers/protocolbuffers/go/aggkit/prover/v1"
	"github.com/agglayer/aggkit/agglayer"
	agglayertypes "github.com/agglayer/aggkit/agglayer/types"
	aggsenderdb "github.com/agglayer/aggkit/aggsender/db"
	"github.com/agglayer/aggkit/aggsender/flows"
	"github.com/agglayer/aggkit/aggsender/query"
	"github.com/agglayer/aggkit/log"
	treetypes "github.com/agglayer/aggkit/tree/types"
	"github.com/agglayer/go_signer/signer"
	"github.com/ethereum/go-ethereum/common"
	"google.golang.org/grpc/codes"
	"google.golang.org/grpc/status"
	"pgregory.net/rapid"

	"verifharness/choose"
	"verifharness/ev"
	"verifharness/grpcfake"
	"verifharness/ref"
)

// Aggchain-prover (FEP) configuration of the aggsender: the real AggchainProverFlow (exported constructor) with the real
// aggchain-proof gRPC client talking to a model prover over a unix socket, installed in the real AggSender through the
// VerifSetFlow hook. The model prover answers with a generated end block in [lastProven+1, requested] (the range
// adjustment / same-range retry paths) or "no proof built yet".

type modelProver struct {
	mu       sync.Mutex
	srv      *grpcfake.Server
	ch       choose.Chooser
	requests []*proverv1.GenerateAggchainProofRequest
	shorten  int // how many blocks to cut from the requested end block (clamped)
	notYet   int // upcoming requests answered with "no proof built yet"
	answers  int
}

func newModelProver() (*modelProver, error) {
	p := &modelProver{srv: &grpcfake.Server{}}
	p.srv.Prove = func(r *proverv1.GenerateAggchainProofRequest) (*proverv1.GenerateAggchainProofResponse, error) {
		p.mu.Lock()
		defer p.mu.Unlock()
		p.requests = append(p.requests, r)
		if p.notYet > 0 {
			p.notYet--
			return nil, status.Error(codes.Unavailable, "Proposer service has not built any proof yet")
		}
		end := r.GetRequestedEndBlock()
		if uint64(p.shorten) < end-r.GetLastProvenBlock() {
			end -= uint64(p.shorten)
		} else {
			end = r.GetLastProvenBlock() + 1
		}
		p.shorten = 0
		return &proverv1.GenerateAggchainProofResponse{
			AggchainProof: &interop.AggchainProof{
				AggchainParams: &interop.FixedBytes32{Value: common.HexToHash("0xa99c4a1").Bytes()},
				Context:        map[string][]byte{"k": {1}},
				Proof:          &interop.AggchainProof_Sp1Stark{Sp1Stark: &interop.SP1StarkProof{Version: "v1", Proof: p.nextProof(), Vkey: []byte{4}}},
			},
			LastProvenBlock:   r.GetLastProvenBlock(),
			EndBlock:          end,
			LocalExitRootHash: &interop.FixedBytes32{Value: make([]byte, 32)},
			CustomChainData:   []byte{0xcc},
		}, nil
	}
	if err := p.srv.Start(); err != nil {
		return nil, err
	}
	return p, nil
}

// nextProof: the proof bytes of the next answer - usually a few bytes, sometimes none at all (a mock or placeholder prover).
func (p *modelProver) nextProof() []byte {
	p.answers++
	switch p.answers % 5 {
	case 2:
		return []byte{}
	case 4:
		return nil
	}
	return []byte{1, 2, byte(p.answers)}
}

type noGERs struct{}

func (noGERs) GetInjectedGERsProofs(context.Context, *treetypes.Root, uint64, uint64) (map[common.Hash]*agglayertypes.ProvenInsertedGERWithBlockNumber, error) {
	return map[common.Hash]*agglayertypes.ProvenInsertedGERWithBlockNumber{}, nil
}

type notOptimistic struct{}

func (notOptimistic) IsOptimisticModeOn() (bool, error) { return false, nil }

// installFEPFlow replaces the node's PP flow by the real aggchain-prover flow.
func installFEPFlow(n *asNode, w *jWorld, p *modelProver, nc nodeCfg) error {
	logger := log.WithFields("module", "verif-fep")
	storage, err := aggsenderdb.NewAggSenderSQLStorage(logger, aggsenderdb.AggSenderSQLStorageConfig{DBPath: n.dbPath, KeepCertificatesHistory: true})
	if err != nil {
		return err
	}
	sgn, err := signer.NewSigner(bg, 0, signer.NewMockSignerConfig(nc.key()), "verif", logger)
	if err != nil {
		return err
	}
	if err := sgn.Initialize(bg); err != nil {
		return err
	}
	prover, err := p.srv.ProverClient()
	if err != nil {
		return err
	}
	lerQ, err := query.NewLERDataQuerier(common.Address{}, 0, fakeRollupData{})
	if err != nil {
		return err
	}
	l2q := query.NewBridgeDataQuerier(logger, w.l2store, 1)
	l1q := query.NewL1InfoTreeDataQuerier(w.l1, w.l1store)
	base := flows.NewBaseFlow(logger, l2q, storage, l1q, lerQ, flows.NewBaseFlowConfig(nc.MaxCertSize, 0, false))
	flow := flows.NewAggchainProverFlow(logger, flows.NewAggchainProverFlowConfig(nc.MaxL2Block), base, prover, storage, l1q, l2q, noGERs{}, w.l1, sgn, notOptimistic{}, nil)
	n.a.VerifSetFlow(flow)
	return nil
}

const c02FEPNote = "FEP configuration: real AggchainProverFlow + real aggchain-proof gRPC client + model prover (generated end block / 'no proof yet')"

// fepWalk: like runWalk, with the FEP flow installed and two extra actions driving the model prover.
func fepWalk(ch choose.Chooser, cfg walkCfg) (*walkRes, *modelProver, error) {
	w, err := initWorld(ch)
	if err != nil {
		return nil, nil, err
	}
	w.noJumps = cfg.node.MaxCertSize > 0
	m := newMAgglayer(w)
	m.expectFEP = true
	dbPath, clean := tmpDB("aggsender")
	p, err := newModelProver()
	if err != nil {
		w.close()
		clean()
		return nil, nil, err
	}
	r := &walkRes{w: w, m: m, storageDir: dbPath, cleanup: func() { p.srv.Stop(); w.close(); clean() }}
	var client agglayer.AgglayerClientInterface = m
	if cfg.viaGRPC {
		g, err := newGRPCAgglayer(m)
		if err != nil {
			r.cleanup()
			return nil, nil, err
		}
		r.grpc = g
		inner := r.cleanup
		r.cleanup = func() { g.stop(); inner() }
		client = g
	}
	node, err := newASNode(w, client, dbPath, cfg.node)
	if err != nil {
		r.cleanup()
		return nil, nil, err
	}
	if err := installFEPFlow(node, w, p, cfg.node); err != nil {
		r.cleanup()
		return nil, nil, err
	}
	r.node = node
	if err := node.startup(m, 3); err != nil {
		r.cleanup()
		return nil, nil, fmt.Errorf("startup on an empty state failed: %v", err)
	}
	for i := 0; i < cfg.steps; i++ {
		if cfg.rotate && ch.Int(0, 7, "rotateKeyNow") == 0 {
			r.trace = append(r.trace, r.rotateKey(ch, cfg, p))
			continue
		}
		alphabet := []int{0, 0, 0, 1, 1, 1, 2, 2, 3, 4, 4, 5, 6, 7, 20, 20, 21}
		if cfg.weights != nil {
			alphabet = append(append([]int{}, cfg.weights...), 20, 20, 21)
		}
		act := choose.Pick(ch, alphabet, "action")
		if act == 0 && cfg.beyond && ch.Int(0, 3, "beyondFinalized") == 0 {
			act = 12
		}
		switch act {
		case 20:
			p.mu.Lock()
			p.shorten = ch.Int(1, 4, "proverShortensBy")
			p.mu.Unlock()
			r.trace = append(r.trace, "prover-short")
		case 21:
			p.mu.Lock()
			p.notYet++
			p.mu.Unlock()
			r.trace = append(r.trace, "prover-notyet")
		default:
			r.trace = append(r.trace, doAction(ch, r, act))
		}
	}
	return r, p, nil
}

func TestC02FEP(t *testing.T) {
	rec := ev.For("C02", c02Rule)
	rec.Set("fep_configuration", c02FEPNote)
	rapid.Check(t, func(rt *rapid.T) {
		if rapid.IntRange(0, 2).Draw(rt, "runFEP") != 0 {
			return // the FEP configuration takes a third of the per-process case budget
		}
		ch := choose.Rapid{T: rt}
		nc := genNodeCfg(ch)
		nc.RequireBridge = false
		cfg := walkCfg{node: nc, steps: rapid.IntRange(10, 50).Draw(rt, "steps")}
		r, _, err := fepWalk(ch, cfg)
		if err != nil {
			fatal(rt, "INCONCLUSIVE: %v", err)
		}
		defer r.cleanup()
		r.drain()
		r.classify()
		nt := r.settled >= 2 || r.retryPath
		rec.Case(nt, fmt.Sprintf("fep|%+v|%s", cfg.node, r.key()))
		rec.Class("fep_walks")
		rec.ClassN("fep_certificates_submitted", len(r.m.certs))
		if v := r.m.firstViolation("C02", "C03"); v != nil {
			rt.Fatalf("[FEP flow] %s\n  config %+v\n  schedule: %s", v.Msg, cfg.node, r.key())
		}
		if s := r.storageCheck(); s != "" {
			rt.Fatalf("[FEP flow] %s\n  schedule: %s", s, r.key())
		}
	})
}

func TestC10FEP(t *testing.T) {
	rec := ev.For("C10", c10Rule)
	rapid.Check(t, func(rt *rapid.T) {
		if rapid.IntRange(0, 2).Draw(rt, "runFEP") != 0 {
			return // the FEP configuration takes a third of the per-process case budget
		}
		ch := choose.Rapid{T: rt}
		nc := genNodeCfg(ch)
		nc.RequireBridge = false
		cfg := walkCfg{node: nc, steps: rapid.IntRange(8, 30).Draw(rt, "steps"), viaGRPC: true, rotate: rapid.Bool().Draw(rt, "keyRotations")}
		r, prv, err := fepWalk(ch, cfg)
		if err != nil {
			fatal(rt, "INCONCLUSIVE: %v", err)
		}
		defer r.cleanup()
		r.drain()
		lastWithID := map[common.Hash]int{}
		for k, sub := range r.grpc.subs {
			lastWithID[sub.ID] = k
		}
		for k, sub := range r.grpc.subs {
			desc := fmt.Sprintf("[FEP] certificate #%d (height %d, %d exits, %d imported)", k, sub.InMem.Height, len(sub.InMem.BridgeExits), len(sub.InMem.ImportedBridgeExits))
			gen := sub.Wire.GetAggchainData().GetGeneric()
			if gen == nil || len(gen.GetSignature().GetValue()) != 65 {
				rt.Fatalf("%s: wire message carries no aggchain proof with a 65-byte signature\n  schedule: %s", desc, r.key())
			}
			commit := wireFEPCommitment(sub)
			pub, e := cryptoSigToAddr(commit, gen.GetSignature().GetValue())
			if e != nil || pub != sub.Signer {
				rt.Fatalf("%s: the signature on the wire is not the configured signer's signature over the FEP commitment recomputed from the wire message\n  schedule: %s", desc, r.key())
			}
			if d := wireVsMem(sub.Wire, sub.InMem); d != "" {
				rt.Fatalf("%s: wire message differs from the certificate that was signed: %s\n  schedule: %s", desc, d, r.key())
			}
			pr, ok := sub.InMem.AggchainData.(*agglayertypes.AggchainDataProof)
			if !ok || common.BytesToHash(gen.GetAggchainParams().GetValue()) != pr.AggchainParams || string(gen.GetSp1Stark().GetProof()) != string(pr.Proof) {
				rt.Fatalf("%s: aggchain proof / params differ between the signed certificate and the wire\n  schedule: %s", desc, r.key())
			}
			if js, e := storedJSONAny(r.storageDir, sub.ID); e == nil && lastWithID[sub.ID] == k {
				var s agglayertypes.Certificate
				if err := jsonUnmarshal(js, &s); err != nil || s.Hash() != sub.InMem.Hash() || s.FEPHashToSign() != sub.InMem.FEPHashToSign() {
					rt.Fatalf("%s: stored copy differs from the certificate that was signed and sent (%v)\n  schedule: %s", desc, err, r.key())
				}
				if sp, ok := s.AggchainData.(*agglayertypes.AggchainDataProof); !ok || string(sp.Signature) != string(pr.Signature) || string(sp.Proof) != string(pr.Proof) || sp.AggchainParams != pr.AggchainParams {
					rt.Fatalf("%s: the stored copy's aggchain data (signature, proof, params) is not the one that was sent\n  schedule: %s", desc, r.key())
				}
				rec.Class("fep_stored_copies_compared")
			}
			nt := len(sub.InMem.BridgeExits) >= 1 && len(sub.InMem.ImportedBridgeExits) >= 1
			rec.Case(nt, fmt.Sprintf("fep|%+v|%s|%d", cfg.node, r.key(), k))
			rec.Class("fep_certificates")
			if sub.Signer != verifSignerAddr {
				rec.Class("fep_certificates_signed_after_a_key_rotation")
			}
		}
		if v := r.m.firstViolation("C10"); v != nil {
			rt.Fatalf("[FEP] %s\n  schedule: %s", v.Msg, r.key())
		}
		checkProverRequests(rt, r, prv, rec)
	})
}

// checkProverRequests: the prover is asked to prove exactly the claims of the requested range: one entry per claim event,
// in order, each with the event's global index (canonical encoding) - what the certificate built from the answer will carry.
func checkProverRequests(rt *rapid.T, r *walkRes, prv *modelProver, rec *ev.Recorder) {
	// the prover is asked to prove exactly the claims of the requested range: one entry per claim event, in order, each
	// with the event's global index (canonical encoding) - what the certificate built from the answer will carry
	prv.mu.Lock()
	reqs := append([]*proverv1.GenerateAggchainProofRequest{}, prv.requests...)
	prv.mu.Unlock()
	for _, q := range reqs {
		_, cls := r.w.eventsIn(q.GetLastProvenBlock()+1, q.GetRequestedEndBlock())
		got := q.GetImportedBridgeExits()
		if len(got) != len(cls) {
			rt.Fatalf("[FEP] the prover request for blocks (%d,%d] carries %d imported bridge exits, the range has %d claim events\n  schedule: %s", q.GetLastProvenBlock(), q.GetRequestedEndBlock(), len(got), len(cls), r.key())
		}
		for k, c := range cls {
			f, ru, l := ref.SplitGlobalIndex(c.GlobalIndex)
			want := ref.GlobalIndex(f, ru, l)
			if gi := new(big.Int).SetBytes(got[k].GetGlobalIndex().GetValue()); gi.Cmp(want) != 0 {
				rt.Fatalf("[FEP] the prover request for blocks (%d,%d]: entry %d carries global index 0x%x, the %d-th claim event of the range has 0x%x\n  schedule: %s", q.GetLastProvenBlock(), q.GetRequestedEndBlock(), k, gi, k+1, want, r.key())
			}
		}
		rec.Class("fep_prover_requests_compared_with_the_claims_of_their_range")
	}
}

// TestC19FEP: the prover request as a carrier of the claims' global indexes, through the real aggchain-prover flow (the
// walks of the FEP configuration; rollup index 0 is a foreign rollup in these worlds).
func TestC19FEP(t *testing.T) {
	rec := ev.For("C19", c19Rule)
	rapid.Check(t, func(rt *rapid.T) {
		if rapid.IntRange(0, 19).Draw(rt, "runFEPWalk") != 0 {
			return // walks are expensive next to the triple checks: 1 in 20 of the budget
		}
		ch := choose.Rapid{T: rt}
		nc := genNodeCfg(ch)
		nc.RequireBridge = false
		cfg := walkCfg{node: nc, steps: rapid.IntRange(8, 30).Draw(rt, "steps"), weights: []int{0, 0, 0, 0, 0, 1, 1, 2, 4, 4, 5, 7}}
		r, prv, err := fepWalk(ch, cfg)
		if err != nil {
			fatal(rt, "INCONCLUSIVE: %v", err)
		}
		defer r.cleanup()
		r.drain()
		checkProverRequests(rt, r, prv, rec)
		rec.Class("fep_walks_for_the_prover_request_carrier")
	})
}
