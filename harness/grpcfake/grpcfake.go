// Package grpcfake serves the Agglayer node services and the aggchain prover service on a unix
// socket so that aggkit's REAL gRPC clients (wire conversion included) talk to harness models.
package grpcfake

import (
	"context"
	"fmt"
	"net"
	"os"
	"path/filepath"
	"time"

	node "buf.build/gen/go/agglayer/agglayer/grpc/go/agglayer/node/v1/nodev1grpc"
	nodev1 "buf.build/gen/go/agglayer/agglayer/protocolbuffers/go/agglayer/node/v1"
	prover "buf.build/gen/go/agglayer/provers/grpc/go/aggkit/prover/v1/proverv1grpc"
	proverv1 "buf.build/gen/go/agglayer/provers/protocolbuffers/go/aggkit/prover/v1"
	agglayergrpc "github.com/agglayer/aggkit/agglayer/grpc"
	"github.com/agglayer/aggkit/aggsender/aggchainproofclient"
	cfgtypes "github.com/agglayer/aggkit/config/types"
	aggkitgrpc "github.com/agglayer/aggkit/grpc"
	"google.golang.org/grpc"
	"google.golang.org/grpc/codes"
	"google.golang.org/grpc/status"
)

type Server struct {
	node.UnimplementedCertificateSubmissionServiceServer
	node.UnimplementedNodeStateServiceServer
	node.UnimplementedConfigurationServiceServer
	prover.UnimplementedAggchainProofServiceServer

	Submit       func(*nodev1.SubmitCertificateRequest) (*nodev1.SubmitCertificateResponse, error)
	Header       func(*nodev1.GetCertificateHeaderRequest) (*nodev1.GetCertificateHeaderResponse, error)
	LatestHeader func(*nodev1.GetLatestCertificateHeaderRequest) (*nodev1.GetLatestCertificateHeaderResponse, error)
	EpochCfg     func() (*nodev1.GetEpochConfigurationResponse, error)
	Prove        func(*proverv1.GenerateAggchainProofRequest) (*proverv1.GenerateAggchainProofResponse, error)
	ProveOpt     func(*proverv1.GenerateOptimisticAggchainProofRequest) (*proverv1.GenerateOptimisticAggchainProofResponse, error)

	srv  *grpc.Server
	dir  string
	Sock string
}

func (s *Server) SubmitCertificate(_ context.Context, r *nodev1.SubmitCertificateRequest) (*nodev1.SubmitCertificateResponse, error) {
	if s.Submit == nil {
		return nil, status.Error(codes.Unimplemented, "no Submit")
	}
	return s.Submit(r)
}
func (s *Server) GetCertificateHeader(_ context.Context, r *nodev1.GetCertificateHeaderRequest) (*nodev1.GetCertificateHeaderResponse, error) {
	if s.Header == nil {
		return nil, status.Error(codes.Unimplemented, "no Header")
	}
	return s.Header(r)
}
func (s *Server) GetLatestCertificateHeader(_ context.Context, r *nodev1.GetLatestCertificateHeaderRequest) (*nodev1.GetLatestCertificateHeaderResponse, error) {
	if s.LatestHeader == nil {
		return nil, status.Error(codes.Unimplemented, "no LatestHeader")
	}
	return s.LatestHeader(r)
}
func (s *Server) GetEpochConfiguration(context.Context, *nodev1.GetEpochConfigurationRequest) (*nodev1.GetEpochConfigurationResponse, error) {
	if s.EpochCfg == nil {
		return nil, status.Error(codes.Unimplemented, "no EpochCfg")
	}
	return s.EpochCfg()
}
func (s *Server) GenerateAggchainProof(_ context.Context, r *proverv1.GenerateAggchainProofRequest) (*proverv1.GenerateAggchainProofResponse, error) {
	if s.Prove == nil {
		return nil, status.Error(codes.Unimplemented, "no Prove")
	}
	return s.Prove(r)
}
func (s *Server) GenerateOptimisticAggchainProof(_ context.Context, r *proverv1.GenerateOptimisticAggchainProofRequest) (*proverv1.GenerateOptimisticAggchainProofResponse, error) {
	if s.ProveOpt == nil {
		return nil, status.Error(codes.Unimplemented, "no ProveOpt")
	}
	return s.ProveOpt(r)
}

// Start listens on a fresh unix socket (short path: unix socket paths are limited to ~107 bytes).
func (s *Server) Start() error {
	dir, err := os.MkdirTemp("", "vg")
	if err != nil {
		return err
	}
	s.dir = dir
	s.Sock = filepath.Join(dir, "s")
	if len(s.Sock) > 100 {
		return fmt.Errorf("socket path too long: %s", s.Sock)
	}
	lis, err := net.Listen("unix", s.Sock)
	if err != nil {
		return err
	}
	s.srv = grpc.NewServer()
	node.RegisterCertificateSubmissionServiceServer(s.srv, s)
	node.RegisterNodeStateServiceServer(s.srv, s)
	node.RegisterConfigurationServiceServer(s.srv, s)
	prover.RegisterAggchainProofServiceServer(s.srv, s)
	go func() { _ = s.srv.Serve(lis) }()
	return nil
}

func (s *Server) Stop() {
	if s.srv != nil {
		s.srv.Stop()
	}
	if s.dir != "" {
		_ = os.RemoveAll(s.dir)
	}
}

func (s *Server) clientCfg() *aggkitgrpc.ClientConfig {
	return &aggkitgrpc.ClientConfig{
		URL:               "unix://" + s.Sock,
		MinConnectTimeout: cfgtypes.NewDuration(5 * time.Second),
		RequestTimeout:    cfgtypes.NewDuration(20 * time.Second),
		UseTLS:            false,
		Retry:             nil,
	}
}

// AgglayerClient builds aggkit's real Agglayer gRPC client dialled at this server.
func (s *Server) AgglayerClient() (*agglayergrpc.AgglayerGRPCClient, error) {
	return agglayergrpc.NewAgglayerGRPCClient(s.clientCfg())
}

// ProverClient builds aggkit's real aggchain-proof gRPC client dialled at this server.
func (s *Server) ProverClient() (*aggchainproofclient.AggchainProofClient, error) {
	return aggchainproofclient.NewAggchainProofClient(s.clientCfg())
}
