package harness

import (
	"context"
	"sync"

	nodetypes "buf.build/gen/go/agglayer/agglayer/protocolbuffers/go/agglayer/node/types/v1"
	nodev1 "buf.build/gen/go/agglayer/agglayer/protocolbuffers/go/agglayer/node/v1"
	interop "buf.build/gen/go/agglayer/interop/protocolbuffers/go/agglayer/interop/types/v1"
	agglayergrpc "github.com/agglayer/aggkit/agglayer/grpc"
	agglayertypes "github.com/agglayer/aggkit/agglayer/types"
	"github.com/ethereum/go-ethereum/common"
	"google.golang.org/grpc/codes"
	"google.golang.org/grpc/status"

	"verifharness/grpcfake"
)

// grpcAgglayer puts aggkit's REAL Agglayer gRPC client (wire conversion of certificates and of the headers that
// recovery reads) between the node and the model Agglayer: node -> real client -> unix socket -> grpcfake -> model.
type grpcAgglayer struct {
	m      *mAgglayer
	srv    *grpcfake.Server
	cl     *agglayergrpc.AgglayerGRPCClient
	mu     sync.Mutex
	inMem  *agglayertypes.Certificate // the certificate object the node handed to the client (tee)
	subs   []submission
	nextID common.Hash
	idErr  error
	signer common.Address
}

type submission struct {
	InMem *agglayertypes.Certificate
	Wire  *nodetypes.Certificate
	ID    common.Hash
	// address of the key the node instance that submitted it was configured with
	Signer common.Address
}

func fb32(h common.Hash) *interop.FixedBytes32 { return &interop.FixedBytes32{Value: h.Bytes()} }

func statusToProto(s agglayertypes.CertificateStatus) nodetypes.CertificateStatus {
	switch s {
	case agglayertypes.Pending:
		return nodetypes.CertificateStatus_CERTIFICATE_STATUS_PENDING
	case agglayertypes.Proven:
		return nodetypes.CertificateStatus_CERTIFICATE_STATUS_PROVEN
	case agglayertypes.Candidate:
		return nodetypes.CertificateStatus_CERTIFICATE_STATUS_CANDIDATE
	case agglayertypes.InError:
		return nodetypes.CertificateStatus_CERTIFICATE_STATUS_IN_ERROR
	case agglayertypes.Settled:
		return nodetypes.CertificateStatus_CERTIFICATE_STATUS_SETTLED
	}
	return nodetypes.CertificateStatus_CERTIFICATE_STATUS_UNSPECIFIED
}

func headerToProto(h *agglayertypes.CertificateHeader) *nodetypes.CertificateHeader {
	if h == nil {
		return nil
	}
	p := &nodetypes.CertificateHeader{NetworkId: h.NetworkID, Height: h.Height, CertificateId: &nodetypes.CertificateId{Value: fb32(h.CertificateID)},
		NewLocalExitRoot: fb32(h.NewLocalExitRoot), Metadata: fb32(h.Metadata), Status: statusToProto(h.Status)}
	if h.PreviousLocalExitRoot != nil {
		p.PrevLocalExitRoot = fb32(*h.PreviousLocalExitRoot)
	}
	if h.Error != nil {
		p.Error = &nodetypes.CertificateStatusError{Message: []byte(h.Error.Error())}
	}
	return p
}

func newGRPCAgglayer(m *mAgglayer) (*grpcAgglayer, error) {
	g := &grpcAgglayer{m: m, srv: &grpcfake.Server{}}
	g.srv.Submit = func(r *nodev1.SubmitCertificateRequest) (*nodev1.SubmitCertificateResponse, error) {
		g.mu.Lock()
		defer g.mu.Unlock()
		if g.idErr != nil {
			return nil, status.Error(codes.Internal, g.idErr.Error())
		}
		g.subs = append(g.subs, submission{InMem: g.inMem, Wire: r.GetCertificate(), ID: g.nextID, Signer: g.signer})
		return &nodev1.SubmitCertificateResponse{CertificateId: &nodetypes.CertificateId{Value: fb32(g.nextID)}}, nil
	}
	g.srv.Header = func(r *nodev1.GetCertificateHeaderRequest) (*nodev1.GetCertificateHeaderResponse, error) {
		h, err := m.GetCertificateHeader(bg, common.BytesToHash(r.GetCertificateId().GetValue().GetValue()))
		if err != nil {
			return nil, status.Error(codes.NotFound, err.Error())
		}
		return &nodev1.GetCertificateHeaderResponse{CertificateHeader: headerToProto(h)}, nil
	}
	g.srv.LatestHeader = func(r *nodev1.GetLatestCertificateHeaderRequest) (*nodev1.GetLatestCertificateHeaderResponse, error) {
		var h *agglayertypes.CertificateHeader
		var err error
		if r.GetType() == nodev1.LatestCertificateRequestType_LATEST_CERTIFICATE_REQUEST_TYPE_SETTLED {
			h, err = m.GetLatestSettledCertificateHeader(bg, r.GetNetworkId())
		} else {
			h, err = m.GetLatestPendingCertificateHeader(bg, r.GetNetworkId())
		}
		if err != nil {
			return nil, status.Error(codes.Internal, err.Error())
		}
		return &nodev1.GetLatestCertificateHeaderResponse{CertificateHeader: headerToProto(h)}, nil
	}
	g.srv.EpochCfg = func() (*nodev1.GetEpochConfigurationResponse, error) {
		return &nodev1.GetEpochConfigurationResponse{EpochConfiguration: &nodetypes.EpochConfiguration{EpochDuration: 10, GenesisBlock: 1}}, nil
	}
	if err := g.srv.Start(); err != nil {
		return nil, err
	}
	cl, err := g.srv.AgglayerClient()
	if err != nil {
		g.srv.Stop()
		return nil, err
	}
	g.cl = cl
	return g, nil
}

func (g *grpcAgglayer) stop() { g.srv.Stop() }

// SendCertificate: the model registers the in-memory certificate (and may inject failures / crashes), then the very same
// object goes through the real client so that the server sees exactly what would be on the wire.
func (g *grpcAgglayer) SendCertificate(ctx context.Context, c *agglayertypes.Certificate) (common.Hash, error) {
	id, err := g.m.SendCertificate(ctx, c)
	g.m.mu.Lock()
	sg := g.m.signer
	g.m.mu.Unlock()
	g.mu.Lock()
	g.inMem, g.nextID, g.idErr, g.signer = c, id, err, sg
	g.mu.Unlock()
	return g.cl.SendCertificate(ctx, c)
}
func (g *grpcAgglayer) GetCertificateHeader(ctx context.Context, id common.Hash) (*agglayertypes.CertificateHeader, error) {
	return g.cl.GetCertificateHeader(ctx, id)
}
func (g *grpcAgglayer) GetEpochConfiguration(ctx context.Context) (*agglayertypes.ClockConfiguration, error) {
	return g.cl.GetEpochConfiguration(ctx)
}
func (g *grpcAgglayer) GetLatestSettledCertificateHeader(ctx context.Context, n uint32) (*agglayertypes.CertificateHeader, error) {
	return g.cl.GetLatestSettledCertificateHeader(ctx, n)
}
func (g *grpcAgglayer) GetLatestPendingCertificateHeader(ctx context.Context, n uint32) (*agglayertypes.CertificateHeader, error) {
	return g.cl.GetLatestPendingCertificateHeader(ctx, n)
}
