package harness

import (
	"context"
	"fmt"
	"math/big"
	"os"
	"testing"
	"time"

	"github.com/0xPolygon/cdk-contracts-tooling/contracts/fep/etrog/polygonzkevmbridge"
	"github.com/0xPolygon/cdk-contracts-tooling/contracts/pp/l2-sovereign-chain/polygonzkevmbridgev2"
	"github.com/agglayer/aggkit/bridgesync"
	aggkittypes "github.com/agglayer/aggkit/types"
	"github.com/ethereum/go-ethereum/common"
	"github.com/ethereum/go-ethereum/core/types"
	"github.com/ethereum/go-ethereum/crypto"
	"pgregory.net/rapid"

	"verifharness/choose"
	"verifharness/ev"
	"verifharness/fakechain"
)

// C20, end-to-end leg: the public bridgesync.NewL2 (real downloader with its claim event handlers of both contract
// generations, driver, processor) follows a scripted chain whose blocks carry ClaimEvent logs; the transactions' call trees
// are served as debug_traceTransaction. The claims the node serves afterwards must carry the event's own fields and the
// details of a live matching call of that transaction.

var (
	c20SigEtrog    = crypto.Keccak256Hash([]byte("ClaimEvent(uint256,uint32,address,address,uint256)"))
	c20SigPreEtrog = crypto.Keccak256Hash([]byte("ClaimEvent(uint32,uint32,address,address,uint256)"))
)

type c20Tx struct {
	block, pos uint64
	etrog      bool
	index      *big.Int
	originNet  uint32
	originAddr common.Address
	destAddr   common.Address
	amount     *big.Int
	live       []*c20Frame
	hash       common.Hash
	gen        *c20Gen
}

func c20EventData(etrog bool, index *big.Int, originNet uint32, originAddr, destAddr common.Address, amount *big.Int) []byte {
	if etrog {
		a, err := polygonzkevmbridgev2.Polygonzkevmbridgev2MetaData.GetAbi()
		if err != nil {
			panic(err)
		}
		b, err := a.Events["ClaimEvent"].Inputs.Pack(index, originNet, originAddr, destAddr, amount)
		if err != nil {
			panic(err)
		}
		return b
	}
	a, err := polygonzkevmbridge.PolygonzkevmbridgeMetaData.GetAbi()
	if err != nil {
		panic(err)
	}
	b, err := a.Events["ClaimEvent"].Inputs.Pack(uint32(index.Uint64()), originNet, originAddr, destAddr, amount)
	if err != nil {
		panic(err)
	}
	return b
}

func TestC20E2E(t *testing.T) {
	rec := ev.For("C20", c20Rule)
	rec.Set("end_to_end_leg", "1 in 30 cases of the budget: 1-12 blocks with 0-2 claim transactions each (generated call trees with at least one live matching call, both contract generations) through the public bridgesync.NewL2 on the scripted chain; oracle = every served claim has the event's own fields and the details of a live matching call of its transaction, one claim per event, in log order")
	rapid.Check(t, func(rt *rapid.T) {
		if rapid.IntRange(0, 29).Draw(rt, "runEndToEnd") != 0 {
			return
		}
		ch := choose.Rapid{T: rt}
		chain := fakechain.New()
		var txs []*c20Tx
		nBlocks := ch.Int(1, 12, "nBlocks")
		seq := 0
		blockLogs := map[uint64][]types.Log{}
		for b := 1; b <= nBlocks; b++ {
			var logs []types.Log
			for i, n := 0, choose.Pick(ch, []int{0, 1, 1, 2}, "claimsInBlock"); i < n; i++ {
				seq++
				g := &c20Gen{ch: ch, seed: byte(seq * 7)}
				g.etrogEv = ch.Int(0, 3, "etrogEvent") != 0
				if g.etrogEv {
					g.target = c20GenIndex(ch)
				} else {
					g.target = big.NewInt(int64(ch.Int(0, 70000, "index")))
				}
				root := g.frame(ch.Int(0, 4, "depth"), true)
				var live []*c20Frame
				decoys, maxDepth := 0, 0
				c20Live(root, g.target, false, &live, &decoys, 0, &maxDepth)
				if len(live) == 0 {
					// the event was emitted, so the transaction made a live matching call: add one
					root.Error, root.reverted = nil, false
					cl := g.claim()
					cl.Etrog, cl.Index = g.etrogEv, new(big.Int).Set(g.target)
					g.frames++
					f := &c20Frame{From: common.BytesToAddress([]byte{0xf1, byte(g.frames)}), To: c20Bridge, Value: "0x0", claim: cl, Input: c20Pack(cl)}
					root.Calls = append(root.Calls, f)
					live = nil
					c20Live(root, g.target, false, &live, &decoys, 0, &maxDepth)
				}
				tx := &c20Tx{block: uint64(b), pos: uint64(i), etrog: g.etrogEv, index: g.target, originNet: uint32(ch.Int(0, 9, "originNet")),
					originAddr: common.BytesToAddress([]byte{0xa0, byte(seq)}), destAddr: common.BytesToAddress([]byte{0xb0, byte(seq)}),
					amount: big.NewInt(int64(1000 + seq)), live: live, hash: crypto.Keccak256Hash([]byte{0xcc, byte(seq), byte(seq >> 8)})}
				sig := c20SigEtrog
				if !tx.etrog {
					sig = c20SigPreEtrog
				}
				logs = append(logs, types.Log{Address: c20Bridge, Topics: []common.Hash{sig}, TxHash: tx.hash, Index: uint(i),
					Data: c20EventData(tx.etrog, tx.index, tx.originNet, tx.originAddr, tx.destAddr, tx.amount)})
				chain.SetTrace(tx.hash, root)
				tx.gen = g
				txs = append(txs, tx)
			}
			chain.Extend(logs)
			blockLogs[uint64(b)] = logs
		}
		tip := chain.Tip()
		chain.SetPointers(tip, tip, tip)
		// re-execution plan: the chain replaces its blocks from one claim transaction's block on, while the node is in the
		// middle of downloading that range; the same transactions (same hashes, same events) are included again, but one of
		// them executes differently now - another call of it is the live matching one. The node notices the changed block
		// hash in its own cross-check and downloads the range again; what it records must belong to the new execution.
		var reexec *c20Tx
		var altRoot *c20Frame
		var altLive []*c20Frame
		if len(txs) >= 2 && ch.Int(0, 1, "reexecutedTransaction") == 0 {
			cand := txs[ch.Int(0, len(txs)-2, "reexecWhich")]
			g := &c20Gen{ch: ch, seed: cand.gen.seed ^ 0x5a, etrogEv: cand.etrog, target: cand.index}
			root := g.frame(ch.Int(0, 4, "depth"), true)
			var live []*c20Frame
			decoys, maxDepth := 0, 0
			c20Live(root, g.target, false, &live, &decoys, 0, &maxDepth)
			if len(live) == 0 {
				root.Error, root.reverted = nil, false
				cl := g.claim()
				cl.Etrog, cl.Index = g.etrogEv, new(big.Int).Set(g.target)
				g.frames++
				root.Calls = append(root.Calls, &c20Frame{From: common.BytesToAddress([]byte{0xf2, byte(g.frames)}), To: c20Bridge, Value: "0x0", claim: cl, Input: c20Pack(cl)})
				live = nil
				c20Live(root, g.target, false, &live, &decoys, 0, &maxDepth)
			}
			reexec, altRoot, altLive = cand, root, live
			// nothing from that block on is final yet
			chain.SetPointers(tip, tip, cand.block-1)
		}
		reexecuted, reexecFired := false, false
		// one of the node's trace requests may fail transiently (the claim handler makes one RPC per claim log)
		traceFaultAt, traceCalls := ch.Int(0, 8, "transientTraceFailureAtCall"), 0
		if reexec == nil && traceFaultAt > 0 {
			chain.Hook = func(c *fakechain.Chain, call fakechain.Call) error {
				if call.Method == "debug_traceTransaction" {
					if traceCalls++; traceCalls == traceFaultAt {
						return fmt.Errorf("injected transient failure of debug_traceTransaction")
					}
				}
				return nil
			}
		}
		if reexec != nil {
			var curFrom, curTo uint64
			traced := false
			chain.Hook = func(c *fakechain.Chain, call fakechain.Call) error {
				if call.Method == "debug_traceTransaction" {
					if traceCalls++; traceCalls == traceFaultAt {
						return fmt.Errorf("injected transient failure of debug_traceTransaction")
					}
				}
				switch {
				case reexecuted:
				case call.Method == "FilterLogs":
					curFrom, curTo, traced = call.From, call.To, false
				case call.Method == "debug_traceTransaction" && call.Tx == reexec.hash:
					traced = true
				case call.Method == "HeaderByNumber" && call.Tag == "" && traced && call.Num > reexec.block && curFrom <= reexec.block && call.Num <= curTo:
					var suffix [][]types.Log
					for n := reexec.block; n <= tip; n++ {
						suffix = append(suffix, blockLogs[n])
					}
					c.ForkLocked(reexec.block, suffix)
					c.SetTraceLocked(reexec.hash, altRoot)
					// the new fork is one (empty) block longer and final: a node that saw the old tip as not final yet moves
					// its last-processed marker only with a further block
					nt := c.ExtendLocked(nil)
					c.SetPointersLocked(nt, nt, nt)
					reexec.live = altLive
					reexecuted, reexecFired = true, true
				}
				return nil
			}
		}
		path, clean := tmpDB("c20e2e")
		defer clean()
		ctx, cancel := context.WithCancel(bg)
		defer cancel()
		s, err := bridgesync.NewL2(ctx, path, c20Bridge, uint64(choose.Pick(ch, []int{1, 3, 100}, "chunk")), aggkittypes.LatestBlock, noReorgs{}, chain, 0,
			time.Millisecond, time.Millisecond, -1, 1, true, false)
		if err != nil {
			fatal(rt, "INCONCLUSIVE: NewL2: %v", err)
		}
		done := make(chan struct{})
		go func() { s.Start(ctx); close(done) }()
		defer func() {
			cancel()
			select {
			case <-done:
			case <-time.After(30 * time.Second):
			}
		}()
		// the whole chain is finalized, so the syncer records its progress up to the tip; a syncer that keeps asking for
		// the same traces without getting anywhere is refusing an event whose transaction has a live matching call
		dl := time.Now().Add(180 * time.Second)
		planOpen := reexec != nil
		lastSeen, lastMove := uint64(0), time.Now()
		for {
			n, err := s.GetLastProcessedBlock(bg)
			if err == nil && n >= chain.Tip() {
				break
			}
			if (err == nil && n != lastSeen) || planOpen {
				lastSeen, lastMove = n, time.Now()
			}
			if time.Since(lastMove) > 10*time.Second {
				rt.Fatalf("[end to end] the syncer stopped advancing at block %d of %d for 10 s although every claim transaction of the (final) chain has a live matching call (%d trace requests for %d claim transactions)", lastSeen, chain.Tip(), chain.Count("debug_traceTransaction"), len(txs))
			}
			if planOpen && ((err == nil && n >= reexec.block) || chain.Count("FilterLogs") > 40) {
				// the moment for the re-execution has passed (or never came): finality catches up, the plan expires
				chain.Lock()
				fired := reexecFired
				reexecuted = true
				if !fired {
					nt := chain.ExtendLocked(nil)
					chain.SetPointersLocked(nt, nt, nt)
				}
				chain.Unlock()
				planOpen = false
			}
			if n := chain.Count("debug_traceTransaction"); n > 200+20*len(txs) {
				lp, _ := s.GetLastProcessedBlock(bg)
				rt.Fatalf("[end to end] the node keeps refusing a claim event although its transaction has a live matching call: %d trace requests for %d claim transactions, last processed block %d of %d", n, len(txs), lp, tip)
			}
			if os.Getenv("VERIF_DEBUG_C20") != "" && time.Now().After(dl.Add(-175*time.Second)) {
				chain.Lock()
				var rb uint64
				if reexec != nil {
					rb = reexec.block
				}
				msg := fmt.Sprintf("DEBUG stuck: n=%d err=%v tip=%d fired=%v reexecBlock=%d fin=%d latest=%d", n, err, tip, reexecFired, rb, chain.FinalizedLocked(), chain.LatestLocked())
				hist := chain.History
				chain.Unlock()
				for _, h := range hist[max(0, len(hist)-25):] {
					msg += fmt.Sprintf("\n  %+v", h)
				}
				rt.Fatalf("%s", msg)
			}
			if time.Now().After(dl) {
				rt.Fatalf("INCONCLUSIVE: syncer did not reach block %d within 180s", tip)
			}
			time.Sleep(time.Millisecond)
		}
		got, err := s.GetClaims(bg, 0, tip)
		if err != nil {
			rt.Fatalf("GetClaims: %v", err)
		}
		if len(got) != len(txs) {
			rt.Fatalf("[end to end] the chain has %d claim events, the node serves %d claims", len(txs), len(got))
		}
		for k, tx := range txs {
			c := got[k]
			if c.BlockNum != tx.block || c.BlockPos != tx.pos {
				rt.Fatalf("[end to end] claim #%d is at block %d position %d, its event at block %d position %d", k, c.BlockNum, c.BlockPos, tx.block, tx.pos)
			}
			if c.GlobalIndex.Cmp(tx.index) != 0 || c.OriginNetwork != tx.originNet || c.OriginAddress != tx.originAddr || c.DestinationAddress != tx.destAddr || c.Amount.Cmp(tx.amount) != 0 {
				rt.Fatalf("[end to end] claim #%d (block %d): served fields (index 0x%x, origin %d/%s, destination %s, amount %v) are not the event's (0x%x, %d/%s, %s, %v)",
					k, tx.block, c.GlobalIndex, c.OriginNetwork, c.OriginAddress, c.DestinationAddress, c.Amount, tx.index, tx.originNet, tx.originAddr, tx.destAddr, tx.amount)
			}
			ok := false
			for _, f := range tx.live {
				cc := c
				ok = ok || c20Matches(&cc, f)
			}
			if !ok {
				rt.Fatalf("[end to end] claim #%d (block %d, index 0x%x): the served details (MER %s, sender %s, isMessage %v, destination network %d) are not those of any of the %d live matching calls of its transaction",
					k, tx.block, tx.index, c.MainnetExitRoot, c.FromAddress, c.IsMessage, c.DestinationNetwork, len(tx.live))
			}
		}
		rec.Case(len(txs) >= 2, fmt.Sprintf("e2e|%d|%d", nBlocks, len(txs)))
		rec.Class("end_to_end_cases")
		if reexecFired {
			rec.Class("end_to_end_cases_with_a_transaction_re_executed_on_a_new_fork_during_the_download")
		}
		rec.ClassN("end_to_end_claims", len(txs))
	})
}

func c20GenIndex(ch choose.Chooser) *big.Int {
	v := new(big.Int)
	if ch.Bool("mainnet") {
		v.SetBit(v, 64, 1)
	} else {
		v.Or(v, new(big.Int).Lsh(big.NewInt(int64(ch.Int(0, 3, "rollup"))), 32))
	}
	return v.Or(v, big.NewInt(int64(ch.Int(0, 70000, "leaf"))))
}
