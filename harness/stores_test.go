package harness

import (
	"fmt"
	"math/big"

	"github.com/agglayer/aggkit/bridgesync"
	"github.com/agglayer/aggkit/l1infotreesync"
	"github.com/agglayer/aggkit/lastgersync"
	"github.com/agglayer/aggkit/sync"
	"github.com/ethereum/go-ethereum/common"
	"github.com/ethereum/go-ethereum/crypto"
	"pgregory.net/rapid"

	"verifharness/ref"
)

// Shared machinery for the store-level checks (C04, C07, C08, C11, C14): generated block histories for the three
// stores, a uniform handle on the real stores (hook facades), and reference models of the trees they build.

type storeKind int

const (
	kBridge storeKind = iota
	kL1Info
	kGER
)

func (k storeKind) String() string { return [...]string{"bridge", "l1info", "ger"}[k] }

// evSpec is one event of a generated block (exactly one payload is set). It is data, not the object handed to the
// store: the stores mutate what they are given, so every feed builds fresh objects (see toSync).
type evSpec struct {
	Kind   string                             `json:"kind"`
	Bridge *bridgesync.Bridge                 `json:"bridge,omitempty"`
	Claim  *bridgesync.Claim                  `json:"claim,omitempty"`
	TokMap *bridgesync.TokenMapping           `json:"tokmap,omitempty"`
	Legacy *bridgesync.LegacyTokenMigration   `json:"legacy,omitempty"`
	RmLeg  *bridgesync.RemoveLegacyToken      `json:"rmlegacy,omitempty"`
	Info   *l1infotreesync.UpdateL1InfoTree   `json:"info,omitempty"`
	InfoV2 *l1infotreesync.UpdateL1InfoTreeV2 `json:"infoV2,omitempty"`
	Verify *l1infotreesync.VerifyBatches      `json:"verify,omitempty"`
	Init   *l1infotreesync.InitL1InfoRootMap  `json:"init,omitempty"`
	GER    *lastgersync.GEREvent              `json:"ger,omitempty"`
}

type blkSpec struct {
	Num  uint64      `json:"num"`
	Hash common.Hash `json:"hash"`
	Evs  []evSpec    `json:"events"`
}

func (b blkSpec) brief() string {
	s := fmt.Sprintf("blk%d[", b.Num)
	for i, e := range b.Evs {
		if i > 0 {
			s += " "
		}
		s += e.Kind
		switch {
		case e.Bridge != nil:
			s += fmt.Sprintf("#%d", e.Bridge.DepositCount)
		case e.Verify != nil:
			s += fmt.Sprintf("(r%d)", e.Verify.RollupID)
		}
	}
	return s + "]"
}

func briefs(bs []blkSpec) []string {
	out := make([]string, len(bs))
	for i, b := range bs {
		out[i] = b.brief()
	}
	return out
}

func cpBig(x *big.Int) *big.Int {
	if x == nil {
		return nil
	}
	return new(big.Int).Set(x)
}
func cpBytes(b []byte) []byte {
	if b == nil {
		return nil
	}
	return append([]byte{}, b...)
}

// toSync builds the sync.Block handed to a store: fresh copies of every event.
func (b blkSpec) toSync(k storeKind) sync.Block {
	out := sync.Block{Num: b.Num, Hash: b.Hash}
	for _, e := range b.Evs {
		switch {
		case e.Bridge != nil:
			c := *e.Bridge
			c.Amount, c.Metadata, c.Calldata = cpBig(c.Amount), cpBytes(c.Metadata), cpBytes(c.Calldata)
			out.Events = append(out.Events, bridgesync.Event{Bridge: &c})
		case e.Claim != nil:
			c := *e.Claim
			c.Amount, c.GlobalIndex, c.Metadata = cpBig(c.Amount), cpBig(c.GlobalIndex), cpBytes(c.Metadata)
			out.Events = append(out.Events, bridgesync.Event{Claim: &c})
		case e.TokMap != nil:
			c := *e.TokMap
			c.Metadata, c.Calldata = cpBytes(c.Metadata), cpBytes(c.Calldata)
			out.Events = append(out.Events, bridgesync.Event{TokenMapping: &c})
		case e.Legacy != nil:
			c := *e.Legacy
			c.Amount, c.Calldata = cpBig(c.Amount), cpBytes(c.Calldata)
			out.Events = append(out.Events, bridgesync.Event{LegacyTokenMigration: &c})
		case e.RmLeg != nil:
			c := *e.RmLeg
			out.Events = append(out.Events, bridgesync.Event{RemoveLegacyToken: &c})
		case e.Info != nil:
			c := *e.Info
			out.Events = append(out.Events, l1infotreesync.Event{UpdateL1InfoTree: &c})
		case e.InfoV2 != nil:
			c := *e.InfoV2
			out.Events = append(out.Events, l1infotreesync.Event{UpdateL1InfoTreeV2: &c})
		case e.Verify != nil:
			c := *e.Verify
			out.Events = append(out.Events, l1infotreesync.Event{VerifyBatches: &c})
		case e.Init != nil:
			c := *e.Init
			out.Events = append(out.Events, l1infotreesync.Event{InitL1InfoRootMap: &c})
		case e.GER != nil:
			c := *e.GER
			out.Events = append(out.Events, &lastgersync.Event{GEREvent: &c})
		}
	}
	_ = k
	return out
}

// ---- uniform handle on the three real stores ------------------------------------------------

type store struct {
	kind storeKind
	path string
	br   *bridgesync.BridgeSync
	l1   *l1infotreesync.L1InfoTreeSync
	ger  *lastgersync.LastGERSync
}

func openStore(k storeKind, path string) (*store, error) {
	s := &store{kind: k, path: path}
	var err error
	switch k {
	case kBridge:
		s.br, err = bridgesync.NewVerif(path, "verif", 7)
	case kL1Info:
		s.l1, err = l1infotreesync.NewVerif(path)
	case kGER:
		s.ger, err = lastgersync.NewVerif(path)
	}
	if err != nil {
		return nil, err
	}
	return s, nil
}

func (s *store) facade() any {
	switch s.kind {
	case kBridge:
		return s.br
	case kL1Info:
		return s.l1
	default:
		return s.ger
	}
}

func (s *store) process(b blkSpec) error {
	sb := b.toSync(s.kind)
	switch s.kind {
	case kBridge:
		return s.br.VerifProcessBlock(bg, sb)
	case kL1Info:
		return s.l1.VerifProcessBlock(bg, sb)
	default:
		return s.ger.VerifProcessBlock(bg, sb)
	}
}

func (s *store) reorg(first uint64) error {
	switch s.kind {
	case kBridge:
		return s.br.VerifReorg(bg, first)
	case kL1Info:
		return s.l1.VerifReorg(bg, first)
	default:
		return s.ger.VerifReorg(bg, first)
	}
}

func (s *store) close() {
	switch s.kind {
	case kBridge:
		_ = s.br.VerifClose()
	case kL1Info:
		_ = s.l1.VerifClose()
	default:
		_ = s.ger.VerifClose()
	}
}

// restart closes the store and constructs it again on the same file (what a process restart does).
func (s *store) restart() error {
	s.close()
	n, err := openStore(s.kind, s.path)
	if err != nil {
		return err
	}
	*s = *n
	return nil
}

// ---- reference model of what a list of blocks means ------------------------------------------

// world is the ground truth implied by a sequence of (surviving) blocks. It is recomputed from scratch by replay,
// so that "the state after a reorg" is by construction "the state of the surviving prefix".
type world struct {
	kind storeKind
	// bridge
	nextDC     uint32
	exit       ref.Frontier
	exitRoots  []common.Hash // root after deposit i
	exitLeaves []common.Hash
	bridges    []bridgesync.Bridge
	legacyLive map[common.Address]int // live legacy_token_migration rows per legacy address
	// l1 info
	info       ref.Frontier
	infoRoots  []common.Hash
	infoLeaves []l1infotreesync.L1InfoTreeLeaf
	gers       map[common.Hash]bool
	rollup     *ref.Sparse
	rollupVal  map[uint32]common.Hash // rollup id -> current exit root
	rollupHist []rollupVersion
	rerSeen    map[common.Hash]bool
	hasInit    bool
	// ger
	gerLive map[common.Hash]uint32 // live injected GER -> l1 info tree index
	gerIdx  uint32
	tip     uint64
}

type rollupVersion struct {
	Root   common.Hash
	Leaves map[uint32]common.Hash // rollup id -> value as of this version
	Block  uint64
}

func newWorld(k storeKind) *world {
	return &world{kind: k, legacyLive: map[common.Address]int{}, gers: map[common.Hash]bool{}, rollup: ref.NewSparse(),
		rollupVal: map[uint32]common.Hash{}, rerSeen: map[common.Hash]bool{ref.EmptyRoot: true}, gerLive: map[common.Hash]uint32{}}
}

func (w *world) apply(b blkSpec) {
	w.tip = b.Num
	for _, e := range b.Evs {
		switch {
		case e.Bridge != nil:
			l := refBridgeLeaf(*e.Bridge)
			w.exit.Add(l)
			w.exitLeaves = append(w.exitLeaves, l)
			w.exitRoots = append(w.exitRoots, w.exit.Root())
			w.bridges = append(w.bridges, *e.Bridge)
			w.nextDC = e.Bridge.DepositCount + 1
		case e.Legacy != nil:
			w.legacyLive[e.Legacy.LegacyTokenAddress]++
		case e.RmLeg != nil:
			delete(w.legacyLive, e.RmLeg.LegacyTokenAddress)
		case e.Info != nil:
			ger := ref.GER(e.Info.MainnetExitRoot, e.Info.RollupExitRoot)
			h := ref.L1InfoLeaf(ger, e.Info.ParentHash, e.Info.Timestamp)
			w.infoLeaves = append(w.infoLeaves, l1infotreesync.L1InfoTreeLeaf{
				BlockNumber: b.Num, BlockPosition: e.Info.BlockPosition, L1InfoTreeIndex: uint32(len(w.infoLeaves)),
				PreviousBlockHash: e.Info.ParentHash, Timestamp: e.Info.Timestamp, MainnetExitRoot: e.Info.MainnetExitRoot,
				RollupExitRoot: e.Info.RollupExitRoot, GlobalExitRoot: ger, Hash: h})
			w.info.Add(h)
			w.infoRoots = append(w.infoRoots, w.info.Root())
			w.gers[ger] = true
		case e.Verify != nil:
			v := e.Verify
			if v.ExitRoot == (common.Hash{}) || w.rollupVal[v.RollupID] == v.ExitRoot {
				continue // zero or unchanged: no effect
			}
			w.rollup.Set(v.RollupID-1, v.ExitRoot)
			w.rollupVal[v.RollupID] = v.ExitRoot
			r := w.rollup.Root()
			w.rerSeen[r] = true
			lv := map[uint32]common.Hash{}
			for k, x := range w.rollupVal {
				lv[k] = x
			}
			w.rollupHist = append(w.rollupHist, rollupVersion{Root: r, Leaves: lv, Block: b.Num})
		case e.Init != nil:
			w.hasInit = true
		case e.GER != nil:
			if e.GER.IsRemove {
				delete(w.gerLive, e.GER.GlobalExitRoot)
			} else {
				w.gerLive[e.GER.GlobalExitRoot] = e.GER.L1InfoTreeIndex
				if e.GER.L1InfoTreeIndex >= w.gerIdx {
					w.gerIdx = e.GER.L1InfoTreeIndex + 1
				}
			}
		}
	}
}

func worldOf(k storeKind, blocks []blkSpec) *world {
	w := newWorld(k)
	for _, b := range blocks {
		w.apply(b)
	}
	return w
}

// ---- generators ------------------------------------------------------------------------------

type genOpts struct {
	maxEvents   int  // per block
	forceMulti  bool // make blocks with >=2 tree insertions frequent
	noDestroy   bool // never generate RemoveLegacyToken / GER removal (the findings F3/F4 are then unreachable)
	withV2      bool // generate consistent UpdateL1InfoTreeV2 announcements
	extremeNets bool
	// reuse: events of blocks that a reorg dropped. A new fork usually re-includes the dropped transactions, in other
	// blocks or in another order: one event in three of a kind that has candidates here repeats the content of one of them.
	reuse []evSpec
}

func reusable(o genOpts, kind string) []evSpec {
	var out []evSpec
	for _, e := range o.reuse {
		if e.Kind == kind {
			out = append(out, e)
		}
	}
	return out
}

func genClaim(t *rapid.T, num, pos uint64) *bridgesync.Claim {
	var p1, p2 [32]common.Hash
	if rapid.Bool().Draw(t, "proofs") {
		for i := range p1 {
			p1[i] = common.BigToHash(big.NewInt(int64(i) + int64(pos)*100))
			p2[i] = common.BigToHash(big.NewInt(int64(i)*3 + 1))
		}
	}
	mer, rer := genHash.Draw(t, "mer"), genHash.Draw(t, "rer")
	return &bridgesync.Claim{
		BlockNum: num, BlockPos: pos, FromAddress: genAddr.Draw(t, "from"), TxHash: genHash.Draw(t, "tx"),
		GlobalIndex:   ref.GlobalIndex(rapid.Bool().Draw(t, "mainnet"), uint32(rapid.IntRange(0, 5).Draw(t, "rollupIdx")), rapid.Uint32Range(0, 1000).Draw(t, "leafIdx")),
		OriginNetwork: genNet.Draw(t, "origNet"), OriginAddress: genAddr.Draw(t, "origAddr"), DestinationAddress: genAddr.Draw(t, "destAddr"),
		Amount: cpBig(genAmount.Draw(t, "amount")), ProofLocalExitRoot: p1, ProofRollupExitRoot: p2,
		MainnetExitRoot: mer, RollupExitRoot: rer, GlobalExitRoot: ref.GER(mer, rer),
		DestinationNetwork: genNet.Draw(t, "destNet"), Metadata: genMeta.Draw(t, "meta"), IsMessage: rapid.Bool().Draw(t, "isMsg"), BlockTimestamp: num * 12,
	}
}

// genBlock draws the events of block num for store kind k, valid on top of world w, and applies it to w.
func genBlock(t *rapid.T, k storeKind, w *world, num uint64, o genOpts) blkSpec {
	b := blkSpec{Num: num, Hash: genHash.Draw(t, "blkHash")}
	maxEv := o.maxEvents
	if maxEv == 0 {
		maxEv = 4
	}
	n := rapid.IntRange(0, maxEv).Draw(t, "nEvents")
	if o.forceMulti && rapid.IntRange(0, 2).Draw(t, "forceMulti") > 0 && n < 2 {
		n = 2 + rapid.IntRange(0, 2).Draw(t, "extra")
	}
	pos := uint64(rapid.IntRange(0, 2).Draw(t, "pos0"))
	switch k {
	case kBridge:
		dc := w.nextDC
		legacy := map[common.Address]bool{}
		for a := range w.legacyLive {
			legacy[a] = true
		}
		for i := 0; i < n; i++ {
			kinds := []string{"bridge", "bridge", "bridge", "claim", "tokmap", "legacy"}
			if !o.noDestroy {
				kinds = append(kinds, "rmlegacy")
			}
			if o.forceMulti {
				kinds = append(kinds, "bridge", "bridge")
			}
			kind := rapid.SampledFrom(kinds).Draw(t, "evKind")
			e := evSpec{Kind: kind}
			switch kind {
			case "bridge":
				prev := append([]bridgesync.Bridge{}, w.bridges...)
				for _, pe := range b.Evs {
					if pe.Bridge != nil {
						prev = append(prev, *pe.Bridge)
					}
				}
				for _, pe := range reusable(o, "bridge") {
					prev = append(prev, *pe.Bridge)
				}
				d := genBridgeOrRepeat(t, prev)
				d.BlockNum, d.BlockPos, d.DepositCount, d.BlockTimestamp = num, pos, dc, num*12
				dc++
				e.Bridge = &d
			case "claim":
				e.Claim = genClaim(t, num, pos)
			case "tokmap":
				e.TokMap = &bridgesync.TokenMapping{BlockNum: num, BlockPos: pos, BlockTimestamp: num * 12, TxHash: genHash.Draw(t, "tx"),
					OriginNetwork: genNet.Draw(t, "net"), OriginTokenAddress: genAddr.Draw(t, "a1"), WrappedTokenAddress: genAddr.Draw(t, "a2"),
					Metadata: rapid.SliceOfN(rapid.Byte(), 0, 40).Draw(t, "meta"), IsNotMintable: rapid.Bool().Draw(t, "nm"),
					Calldata: rapid.SliceOfN(rapid.Byte(), 0, 8).Draw(t, "cd"), Type: 0}
				if rapid.Bool().Draw(t, "sovereign") {
					e.TokMap.Type = 1
				}
			case "legacy":
				la := common.BytesToAddress([]byte{0xaa, byte(rapid.IntRange(0, 3).Draw(t, "legacyAddr"))})
				e.Legacy = &bridgesync.LegacyTokenMigration{BlockNum: num, BlockPos: pos, BlockTimestamp: num * 12, TxHash: genHash.Draw(t, "tx"),
					Sender: genAddr.Draw(t, "sender"), LegacyTokenAddress: la, UpdatedTokenAddress: genAddr.Draw(t, "upd"),
					Amount: cpBig(genAmount.Draw(t, "amount")), Calldata: rapid.SliceOfN(rapid.Byte(), 0, 8).Draw(t, "cd")}
				legacy[la] = true
			case "rmlegacy":
				la := common.BytesToAddress([]byte{0xaa, byte(rapid.IntRange(0, 3).Draw(t, "legacyAddr"))})
				e.RmLeg = &bridgesync.RemoveLegacyToken{BlockNum: num, BlockPos: pos, BlockTimestamp: num * 12, TxHash: genHash.Draw(t, "tx"), LegacyTokenAddress: la}
			}
			b.Evs = append(b.Evs, e)
			pos += uint64(rapid.IntRange(1, 3).Draw(t, "posGap"))
		}
	case kL1Info:
		for i := 0; i < n; i++ {
			kinds := []string{"info", "info", "verify", "verify"}
			if o.withV2 && len(w.infoLeaves)+countKind(b.Evs, "info") > 0 {
				kinds = append(kinds, "infoV2")
			}
			if !w.hasInit && countKind(b.Evs, "init") == 0 {
				kinds = append(kinds, "init")
			}
			if o.forceMulti {
				kinds = append(kinds, "info", "info")
			}
			kind := rapid.SampledFrom(kinds).Draw(t, "evKind")
			e := evSpec{Kind: kind}
			switch kind {
			case "info":
				var mer, rer common.Hash
				for tries := 0; ; tries++ {
					mer, rer = genHash.Draw(t, "mer"), genHash.Draw(t, "rer")
					if c := reusable(o, "info"); tries == 0 && len(c) > 0 && rapid.IntRange(0, 2).Draw(t, "reincludeDropped") == 0 {
						old := c[rapid.IntRange(0, len(c)-1).Draw(t, "reincludeWhich")].Info
						mer, rer = old.MainnetExitRoot, old.RollupExitRoot
					}
					if !w.gers[ref.GER(mer, rer)] && !gerInBlock(b.Evs, ref.GER(mer, rer)) {
						break
					}
					if tries > 20 {
						mer = common.BigToHash(new(big.Int).SetUint64(num<<20 | pos<<8 | uint64(tries)))
					}
				}
				e.Info = &l1infotreesync.UpdateL1InfoTree{BlockPosition: pos, MainnetExitRoot: mer, RollupExitRoot: rer,
					ParentHash: genHash.Draw(t, "parent"), Timestamp: rapid.OneOf(rapid.Just(uint64(0)), rapid.Uint64Range(0, 1<<63-1), rapid.Uint64Range(1, 1<<33)).Draw(t, "ts")}
			case "infoV2":
				// consistent announcement of the current tree (root after all info events so far in this block)
				f := w.info.Clone()
				cnt := len(w.infoLeaves)
				for _, pe := range b.Evs {
					if pe.Info != nil {
						f.Add(ref.L1InfoLeaf(ref.GER(pe.Info.MainnetExitRoot, pe.Info.RollupExitRoot), pe.Info.ParentHash, pe.Info.Timestamp))
						cnt++
					}
				}
				e.InfoV2 = &l1infotreesync.UpdateL1InfoTreeV2{CurrentL1InfoRoot: f.Root(), LeafCount: uint32(cnt), Blockhash: genHash.Draw(t, "bh"), MinTimestamp: 1}
			case "verify":
				ids := []uint32{1, 2, 3, 1 << 16, 1<<32 - 1}
				id := rapid.OneOf(rapid.SampledFrom(ids), rapid.Uint32Range(1, 1<<32-1)).Draw(t, "rollupID")
				var er common.Hash
				switch rapid.IntRange(0, 6).Draw(t, "exitKind") {
				case 6:
					// the rollup reports a value it had before (nothing a deployed rollup does - its exit tree only grows - but
					// a sequence the store accepts) while the tree as a whole reaches a state it never had: the root table is
					// keyed by the root hash, so only such sequences are well defined
					er = genHash.Draw(t, "exitRoot")
					cur := currentRollupVal(w, b.Evs, id)
					var cands []common.Hash
					seen := map[common.Hash]bool{}
					add := func(h common.Hash) {
						if h != (common.Hash{}) && h != cur && !seen[h] {
							seen[h] = true
							cands = append(cands, h)
						}
					}
					for _, v := range w.rollupHist {
						add(v.Leaves[id])
					}
					for _, pe := range b.Evs {
						if pe.Verify != nil && pe.Verify.RollupID == id {
							add(pe.Verify.ExitRoot)
						}
					}
					if len(cands) > 0 {
						c := cands[rapid.IntRange(0, len(cands)-1).Draw(t, "earlierValue")]
						sp := w.rollup.Clone()
						roots := map[common.Hash]bool{}
						for _, v := range w.rollupHist {
							roots[v.Root] = true
						}
						for _, pe := range b.Evs {
							if pe.Verify != nil && pe.Verify.ExitRoot != (common.Hash{}) {
								sp.Set(pe.Verify.RollupID-1, pe.Verify.ExitRoot)
								roots[sp.Root()] = true
							}
						}
						sp.Set(id-1, c)
						if !roots[sp.Root()] {
							er = c
						}
					}
				case 0:
					er = common.Hash{} // zero: ignored
				case 1:
					er = currentRollupVal(w, b.Evs, id) // unchanged: ignored
				case 2:
					// constants a rollup legitimately reports: the root of its still empty exit tree (a chain settling before its
					// first bridge exit), and hashes that look special without being the zero hash
					er = rapid.SampledFrom(specialExitRoots).Draw(t, "specialExitRoot")
					if rollupEverHad(w, b.Evs, id, er) {
						er = genHash.Draw(t, "exitRoot")
					}
				default:
					er = genHash.Draw(t, "exitRoot") // fresh (never returns to an earlier value)
				}
				if c := reusable(o, "verify"); len(c) > 0 && rapid.IntRange(0, 2).Draw(t, "reincludeDropped") == 0 {
					// the dropped fork's verification of that rollup, with the same exit root (a value the rollup never had on
					// the surviving chain, so this is still not a return to an earlier value)
					old := c[rapid.IntRange(0, len(c)-1).Draw(t, "reincludeWhich")].Verify
					if old.ExitRoot != (common.Hash{}) && !rollupEverHad(w, b.Evs, old.RollupID, old.ExitRoot) {
						id, er = old.RollupID, old.ExitRoot
					}
				}
				e.Verify = &l1infotreesync.VerifyBatches{BlockPosition: pos, RollupID: id, NumBatch: rapid.Uint64Range(0, 1<<40).Draw(t, "batch"),
					StateRoot: genHash.Draw(t, "sr"), ExitRoot: er, Aggregator: genAddr.Draw(t, "agg")}
			case "init":
				e.Init = &l1infotreesync.InitL1InfoRootMap{LeafCount: rapid.Uint32Range(0, 100).Draw(t, "initCount"), CurrentL1InfoRoot: genHash.Draw(t, "initRoot")}
			}
			b.Evs = append(b.Evs, e)
			pos += uint64(rapid.IntRange(1, 3).Draw(t, "posGap"))
		}
	case kGER:
		// the table's key (block_num) declares at most one event per block
		switch rapid.IntRange(0, 5).Draw(t, "gerKind") {
		case 0, 1:
			// no event
		case 2:
			if !o.noDestroy {
				var g common.Hash
				live := sortedHashes(w.gerLive)
				if len(live) > 0 && rapid.IntRange(0, 4).Draw(t, "rmLive") > 0 {
					g = rapid.SampledFrom(live).Draw(t, "rmWhich")
				} else {
					g = genHash.Draw(t, "rmUnknown")
				}
				b.Evs = append(b.Evs, evSpec{Kind: "gerrm", GER: &lastgersync.GEREvent{BlockNum: num, GlobalExitRoot: g, IsRemove: true}})
			}
		default:
			g := genHash.Draw(t, "ger")
			if c := reusable(o, "gerins"); len(c) > 0 && rapid.IntRange(0, 2).Draw(t, "reincludeDropped") == 0 {
				g = c[rapid.IntRange(0, len(c)-1).Draw(t, "reincludeWhich")].GER.GlobalExitRoot
			}
			if live := sortedHashes(w.gerLive); len(live) > 0 && rapid.IntRange(0, 3).Draw(t, "reportLiveRootAgain") == 0 {
				// a root that is already injected is reported again by a later block, with its own index (the FEP downloader
				// reports the newest injected root with every new block; in PP mode a root can be inserted again)
				g = rapid.SampledFrom(live).Draw(t, "againWhich")
				b.Evs = append(b.Evs, evSpec{Kind: "gerins", GER: &lastgersync.GEREvent{BlockNum: num, GlobalExitRoot: g, L1InfoTreeIndex: w.gerLive[g]}})
			} else if _, dup := w.gerLive[g]; !dup {
				idx := w.gerIdx + uint32(rapid.IntRange(0, 3).Draw(t, "idxGap"))
				b.Evs = append(b.Evs, evSpec{Kind: "gerins", GER: &lastgersync.GEREvent{BlockNum: num, GlobalExitRoot: g, L1InfoTreeIndex: idx}})
			}
		}
	}
	w.apply(b)
	return b
}

func countKind(evs []evSpec, k string) int {
	n := 0
	for _, e := range evs {
		if e.Kind == k {
			n++
		}
	}
	return n
}

func gerInBlock(evs []evSpec, g common.Hash) bool {
	for _, e := range evs {
		if e.Info != nil && ref.GER(e.Info.MainnetExitRoot, e.Info.RollupExitRoot) == g {
			return true
		}
	}
	return false
}

// currentRollupVal is the exit root rollup id has after the world and the events already drawn for this block.
func currentRollupVal(w *world, evs []evSpec, id uint32) common.Hash {
	v := w.rollupVal[id]
	for _, e := range evs {
		if e.Verify != nil && e.Verify.RollupID == id && e.Verify.ExitRoot != (common.Hash{}) {
			v = e.Verify.ExitRoot
		}
	}
	return v
}

// rollupEverHad: did rollup id ever hold exit root er on the surviving chain (or through the events drawn for this block)?
var specialExitRoots = []common.Hash{
	(&ref.Frontier{}).Root(), // empty depth-32 tree
	crypto.Keccak256Hash(nil),
	common.HexToHash("0x01"),
	common.HexToHash("0xffffffffffffffffffffffffffffffffffffffffffffffffffffffffffffffff"),
	common.HexToHash("0x0100000000000000000000000000000000000000000000000000000000000000"),
}

func rollupEverHad(w *world, evs []evSpec, id uint32, er common.Hash) bool {
	for _, v := range w.rollupHist {
		if v.Leaves[id] == er {
			return true
		}
	}
	for _, e := range evs {
		if e.Verify != nil && e.Verify.RollupID == id && e.Verify.ExitRoot == er {
			return true
		}
	}
	return false
}

func sortedHashes(m map[common.Hash]uint32) []common.Hash {
	out := make([]common.Hash, 0, len(m))
	for h := range m {
		out = append(out, h)
	}
	for i := 1; i < len(out); i++ {
		for j := i; j > 0 && string(out[j][:]) < string(out[j-1][:]); j-- {
			out[j], out[j-1] = out[j-1], out[j]
		}
	}
	return out
}

// genHistory draws n consecutive blocks (numbers with gaps) on top of the given surviving blocks.
func genHistory(t *rapid.T, k storeKind, base []blkSpec, n int, o genOpts) []blkSpec {
	w := worldOf(k, base)
	num := uint64(0)
	if len(base) > 0 {
		num = base[len(base)-1].Num
	}
	var out []blkSpec
	for i := 0; i < n; i++ {
		num += uint64(rapid.IntRange(1, 3).Draw(t, "numGap"))
		out = append(out, genBlock(t, k, w, num, o))
	}
	return out
}

func hasEvents(bs []blkSpec) bool {
	for _, b := range bs {
		if len(b.Evs) > 0 {
			return true
		}
	}
	return false
}
