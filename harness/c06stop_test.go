package harness

import (
	"context"
	"fmt"
	"testing"
	"time"

	cfgtypes "github.com/agglayer/aggkit/config/types"
	"github.com/agglayer/aggkit/l1infotreesync"
	"github.com/agglayer/aggkit/reorgdetector"
	aggkittypes "github.com/agglayer/aggkit/types"
	"github.com/ethereum/go-ethereum/core/types"
	"pgregory.net/rapid"

	"verifharness/ev"
	"verifharness/fakechain"
)

// C06, stop-and-switch-back leg. The node is stopped while it cannot record a block it has already handed to the reorg
// detector (the storage refuses that block's row); while it is down the chain forks at that very block; the node comes back,
// follows the new fork - and then the chain switches back to the first fork (same blocks, same hashes) before the
// detector's next periodic check (the default period is 2 s; here 400 ms). The node's store holds the second fork's
// blocks, the canonical chain is the first fork again: the detector must notice and the node must converge.

func c06StopRun(rt *rapid.T) (verdict, inconcl string, judged bool) {
	chain := fakechain.New()
	nBlocks := rapid.IntRange(4, 10).Draw(rt, "nBlocks")
	var eventBlocks []uint64
	fin := uint64(rapid.IntRange(1, 2).Draw(rt, "finalized"))
	for i := 0; i < nBlocks; i++ {
		n := rapid.SampledFrom([]int{0, 1, 1, 2}).Draw(rt, "infoLogs")
		b := chain.Extend(c06Logs(n))
		if n > 0 && b > fin {
			eventBlocks = append(eventBlocks, b)
		}
	}
	if len(eventBlocks) == 0 {
		return "", "", false
	}
	tip := chain.Tip()
	chain.SetPointers(tip, fin, fin)
	x := rapid.SampledFrom(eventBlocks).Draw(rt, "blockTheNodeCannotRecord")
	storePath, clean := tmpDB("c06s")
	defer clean()
	rdPath := storePath + ".rd"
	pre, err := l1infotreesync.NewVerif(storePath)
	if err != nil {
		return "", "open: " + err.Error(), false
	}
	_ = pre.VerifClose()
	d := rawDB(storePath)
	defer d.Close()
	if _, err := d.Exec(fmt.Sprintf(`CREATE TRIGGER vf_stop BEFORE INSERT ON block WHEN NEW.num = %d BEGIN SELECT RAISE(ABORT, 'verif injected storage fault'); END`, x)); err != nil {
		return "", "trigger: " + err.Error(), false
	}
	chunk := uint64(rapid.SampledFrom([]int{1, 3, 100}).Draw(rt, "chunk"))
	start := func(period time.Duration) (*l1infotreesync.L1InfoTreeSync, func(), string) {
		ctx, cancel := context.WithCancel(context.Background())
		rd, err := reorgdetector.New(chain, reorgdetector.Config{DBPath: rdPath, CheckReorgsInterval: cfgtypes.NewDuration(period), FinalizedBlock: aggkittypes.FinalizedBlock}, reorgdetector.L1)
		if err != nil {
			cancel()
			return nil, nil, "detector: " + err.Error()
		}
		if err := rd.Start(ctx); err != nil {
			cancel()
			return nil, nil, "detector start: " + err.Error()
		}
		s, err := l1infotreesync.New(ctx, storePath, c06GER, c06RM, chunk, aggkittypes.LatestBlock, rd, chain, time.Millisecond, 0, time.Millisecond, -1,
			l1infotreesync.FlagAllowWrongContractsAddrs, aggkittypes.FinalizedBlock, false)
		if err != nil {
			cancel()
			return nil, nil, "constructor: " + err.Error()
		}
		done := make(chan struct{})
		go func() { s.Start(ctx); close(done) }()
		return s, func() {
			cancel()
			select {
			case <-done:
			case <-time.After(3 * time.Second): // see O7
			}
		}, ""
	}
	// first life: the node hands block x to the detector and cannot record it
	s1, stop1, e := start(time.Millisecond)
	if e != "" {
		return "", e, false
	}
	rdb := rawDB(rdPath)
	defer rdb.Close()
	tracked := false
	for dl := time.Now().Add(5 * time.Second); time.Now().Before(dl) && !tracked; time.Sleep(500 * time.Microsecond) {
		var n int
		if err := rdb.QueryRow(`SELECT COUNT(*) FROM tracked_block WHERE num = ?`, x).Scan(&n); err == nil && n > 0 {
			tracked = true
		}
	}
	time.Sleep(2 * time.Millisecond)
	last, _ := s1.GetLastProcessedBlock(bg)
	stop1()
	if !tracked || last >= x {
		return "", "", false // the situation was not reached (not judged)
	}
	first := chain.Snapshot()
	// while the node is down: the chain forks at x (same length), the storage works again
	var suffix [][]types.Log
	for n := x; n <= tip; n++ {
		k := rapid.SampledFrom([]int{0, 1, 2}).Draw(rt, "forkLogs")
		if n == x && k == 0 {
			k = 1 // the new fork's block x has events too: the node records it, which is what makes the switch back visible
		}
		suffix = append(suffix, c06Logs(k))
	}
	chain.Fork(x, suffix)
	chain.SetPointers(tip, fin, fin)
	if _, err := d.Exec(`DROP TRIGGER IF EXISTS vf_stop`); err != nil {
		return "", "drop trigger: " + err.Error(), false
	}
	// second life: follows the second fork; the detector's first periodic check is 400 ms away
	t0 := time.Now()
	s2, stop2, e := start(400 * time.Millisecond)
	if e != "" {
		return "", e, false
	}
	defer stop2()
	// (an event-less block above the finalized one is not recorded, so "has the second fork's leaves" is the criterion)
	reached := false
	second := c06Expected(chain, false)
	for time.Since(t0) < 250*time.Millisecond {
		if c06Compare(s2, second) == "" {
			reached = true
			break
		}
		time.Sleep(300 * time.Microsecond)
	}
	if !reached || time.Since(t0) > 250*time.Millisecond {
		return "", "", false // too slow to be sure that no periodic check has run yet (not judged)
	}
	// the chain switches back to the first fork and grows by one block
	chain.Restore(first)
	chain.Extend(c06Logs(rapid.SampledFrom([]int{0, 1}).Draw(rt, "growth")))
	chain.SetPointers(chain.Tip(), fin, fin)
	want := c06Expected(chain, false)
	var diff string
	for dl := time.Now().Add(10 * time.Second); time.Now().Before(dl); time.Sleep(2 * time.Millisecond) {
		if diff = c06Compare(s2, want); diff == "" {
			return "", "", true
		}
	}
	return fmt.Sprintf("the node was stopped while it could not record block %d (already handed to the reorg detector); while it was down the chain forked at %d; it came back and followed the new fork; then the chain switched back to the first fork (same hashes) before the detector's first periodic check. Ten seconds and ~25 checks later the node still differs from the canonical chain: %s%s",
		x, x, diff, c06Diag(storePath, rdPath, chain)), "", true
}

var c06StopJudged int

func TestC06Stop(t *testing.T) {
	rec := ev.For("C06", c06Rule)
	rec.Set("stop_and_switch_back_leg", "every case of the budget also runs one short scenario: the node is stopped while the storage refuses the row of a block it has already handed to the detector, the chain forks at that block while it is down, the node follows the new fork, the chain switches back to the first fork (same hashes) before the detector's first periodic check (400 ms); oracle = convergence to the canonical chain within 10 s")
	rapid.Check(t, func(rt *rapid.T) {
		verdict, inconcl, judged := c06StopRun(rt)
		if inconcl != "" {
			fatal(rt, "INCONCLUSIVE: %s", inconcl)
		}
		if verdict != "" {
			rt.Fatalf("[stop and switch back] %s", verdict)
		}
		if judged {
			c06StopJudged++
			rec.Class("stop_and_switch_back_cases_judged")
		} else {
			rec.Class("stop_and_switch_back_cases_in_which_the_situation_was_not_reached")
		}
	})
}

var _ = ev.For
