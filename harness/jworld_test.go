package harness

import (
	"fmt"
	"math/big"

	"github.com/agglayer/aggkit/bridgesync"
	"github.com/agglayer/aggkit/l1infotreesync"
	aggkitsync "github.com/agglayer/aggkit/sync"
	"github.com/ethereum/go-ethereum/common"
	"github.com/ethereum/go-ethereum/crypto"

	"verifharness/choose"
	"verifharness/fakechain"
	"verifharness/ref"
)

// Joint L1+L2 bridge world: ground truth (every leaf, root and proof) on the side, real stores fed block by block.
// Used by C02, C03, C09, C10, C12, C13.

const jNetID = uint32(3) // our L2 network (rollup id 3, rollup index 2); the foreign rollups of the worlds are 1 and 2, so rollup index 0 is a foreign source

type srcDep struct {
	LeafType uint8
	OrigNet  uint32
	OrigAddr common.Address
	DestNet  uint32
	DestAddr common.Address
	Amount   *big.Int
	Meta     []byte
}

func (d srcDep) leaf() common.Hash {
	return ref.BridgeLeaf(d.LeafType, d.OrigNet, d.OrigAddr, d.DestNet, d.DestAddr, d.Amount, crypto.Keccak256Hash(d.Meta))
}

type infoRec struct {
	Idx        uint32
	Block      uint64
	MER, RER   common.Hash
	GER        common.Hash
	MainCount  int
	RollupCnt  map[uint32]int         // verified deposits per foreign rollup as of this leaf
	RollupLERs map[uint32]common.Hash // rollup exit tree leaves as of this leaf
	Leaf       common.Hash
	Parent     common.Hash
	Ts         uint64
}

type l2Block struct {
	Num     uint64
	Bridges []bridgesync.Bridge
	Claims  []bridgesync.Claim
}

type jWorld struct {
	// noJumps: no block-number jumps (set when the node has a certificate size limit: its limitCertSize walks such a range
	// block by block, copying the event slices at every step - tens of seconds of CPU per certificate, observation O9)
	noJumps, jumped bool
	strayIdx        int // mainnet claims generated with non-zero rollup-index bits in their global index
	l1              *fakechain.Chain
	l1store         *l1infotreesync.L1InfoTreeSync
	l2store         *bridgesync.BridgeSync
	l1path          string
	l2path          string
	mainDeps        []srcDep
	rollDeps        map[uint32][]srcDep
	rollVerif       map[uint32]int
	rollLER         map[uint32]common.Hash
	infos           []infoRec
	infoFront       ref.Frontier
	infoRoots       []common.Hash
	l2blocks        []l2Block
	l2front         ref.Frontier
	l2roots         []common.Hash // root after deposit i
	l2next          uint64
	claimed         map[string]bool
	l1Finalized     uint64
	cleanups        []func()
	seq             int
}

func newJWorld() (*jWorld, error) {
	w := &jWorld{l1: fakechain.New(), rollDeps: map[uint32][]srcDep{}, rollVerif: map[uint32]int{}, rollLER: map[uint32]common.Hash{}, claimed: map[string]bool{}, l2next: 1}
	p1, c1 := tmpDB("l1info")
	p2, c2 := tmpDB("l2bridge")
	w.cleanups = []func(){c1, c2}
	w.l1path, w.l2path = p1, p2
	var err error
	if w.l1store, err = l1infotreesync.NewVerif(p1); err != nil {
		return nil, err
	}
	if w.l2store, err = bridgesync.NewVerif(p2, "l2", jNetID); err != nil {
		return nil, err
	}
	return w, nil
}

func (w *jWorld) close() {
	_ = w.l1store.VerifClose()
	_ = w.l2store.VerifClose()
	for _, c := range w.cleanups {
		c()
	}
}

func (w *jWorld) nextSeq() int { w.seq++; return w.seq }

func (w *jWorld) genDep(ch choose.Chooser, origNet uint32) srcDep {
	s := w.nextSeq()
	d := srcDep{LeafType: uint8(ch.Int(0, 1, "leafType")), OrigNet: origNet, OrigAddr: common.BytesToAddress([]byte{0x0a, byte(s)}),
		DestNet: jNetID, DestAddr: common.BytesToAddress([]byte{0x0d, byte(s >> 8), byte(s)})}
	// the bridged token may originate from any network, and the same token address exists on several networks (a token
	// deployed at one address on L1 and on a rollup; the zero address is the native token of every network)
	switch ch.Int(0, 4, "origNetKind") {
	case 1:
		d.OrigNet = 0
	case 2:
		d.OrigNet = 2
	case 3:
		d.OrigNet = 1<<32 - 1
	}
	if ch.Int(0, 1, "sharedTokenAddress") == 0 {
		d.OrigAddr = []common.Address{{}, common.BytesToAddress([]byte{0x0a, 0xaa}), common.BytesToAddress([]byte{0x0a, 0xbb})}[ch.Int(0, 2, "tokenAddr")]
	}
	switch ch.Int(0, 4, "amountKind") {
	case 0:
		d.Amount = big.NewInt(0)
	case 1:
		d.Amount = new(big.Int).Set(maxU256)
	default:
		d.Amount = big.NewInt(int64(s) * 1000003)
	}
	switch ch.Int(0, 4, "metaKind") {
	case 0:
		d.Meta = nil
	case 1:
		d.Meta = []byte{byte(s)}
	case 4:
		// metadata as long as a hash, a hash more or less one byte, or two words (one ABI-encoded value is 32 bytes)
		d.Meta = make([]byte, []int{31, 32, 32, 33, 64}[s%5])
		for i := range d.Meta {
			d.Meta[i] = byte(s*3 + i)
		}
	default:
		d.Meta = make([]byte, 40+s%50)
		for i := range d.Meta {
			d.Meta[i] = byte(s + i)
		}
	}
	return d
}

func (w *jWorld) mer() common.Hash {
	f := ref.Frontier{}
	for _, d := range w.mainDeps {
		f.Add(d.leaf())
	}
	return f.Root()
}

func (w *jWorld) rollupSparse(lers map[uint32]common.Hash) *ref.Sparse {
	s := ref.NewSparse()
	for id, h := range lers {
		s.Set(id-1, h)
	}
	return s
}

func lerOf(deps []srcDep, n int) common.Hash {
	f := ref.Frontier{}
	for i := 0; i < n; i++ {
		f.Add(deps[i].leaf())
	}
	return f.Root()
}

// addL1Block appends one L1 block: optional mainnet deposits, foreign-rollup deposits + batch verification, and nInfo
// L1 info tree updates (each capturing the exit roots current at that point). The block is fed to the real L1 store.
func (w *jWorld) addL1Block(ch choose.Chooser, nMain, nRoll, nInfo int) error {
	parent := w.l1.HashOf(w.l1.Tip())
	num := w.l1.Extend(nil)
	w.l1.SetPointers(num, num, w.l1Finalized)
	hash := w.l1.HashOf(num)
	var evs []interface{}
	pos := uint64(0)
	for i := 0; i < nMain; i++ {
		w.mainDeps = append(w.mainDeps, w.genDep(ch, 0))
	}
	for i := 0; i < nRoll; i++ {
		id := uint32(1 + ch.Int(0, 1, "foreignRollup"))
		w.rollDeps[id] = append(w.rollDeps[id], w.genDep(ch, id))
		// verify batches: the rollup manager records the rollup's new local exit root
		w.rollVerif[id] = len(w.rollDeps[id])
		ler := lerOf(w.rollDeps[id], w.rollVerif[id])
		w.rollLER[id] = ler
		evs = append(evs, l1infotreesync.Event{VerifyBatches: &l1infotreesync.VerifyBatches{BlockPosition: pos, RollupID: id, NumBatch: uint64(w.nextSeq()),
			StateRoot: common.Hash{1}, ExitRoot: ler, Aggregator: common.Address{2}}})
		pos++
	}
	ts := w.l1.HeaderTime(num)
	for i := 0; i < nInfo; i++ {
		mer := w.mer()
		lers := map[uint32]common.Hash{}
		cnts := map[uint32]int{}
		for id, h := range w.rollLER {
			lers[id] = h
			cnts[id] = w.rollVerif[id]
		}
		rer := w.rollupSparse(lers).Root()
		// the contract emits no update for a GER it already knows: make each update change something
		if n := len(w.infos); n > 0 && w.infos[n-1].MER == mer && w.infos[n-1].RER == rer {
			w.mainDeps = append(w.mainDeps, w.genDep(ch, 0))
			mer = w.mer()
		}
		ger := ref.GER(mer, rer)
		leaf := ref.L1InfoLeaf(ger, parent, ts)
		rec := infoRec{Idx: uint32(len(w.infos)), Block: num, MER: mer, RER: rer, GER: ger, MainCount: len(w.mainDeps), RollupCnt: cnts, RollupLERs: lers, Leaf: leaf, Parent: parent, Ts: ts}
		w.infos = append(w.infos, rec)
		w.infoFront.Add(leaf)
		w.infoRoots = append(w.infoRoots, w.infoFront.Root())
		evs = append(evs, l1infotreesync.Event{UpdateL1InfoTree: &l1infotreesync.UpdateL1InfoTree{BlockPosition: pos, MainnetExitRoot: mer, RollupExitRoot: rer, ParentHash: parent, Timestamp: ts}})
		pos++
	}
	return w.l1store.VerifProcessBlock(bg, aggkitsync.Block{Num: num, Hash: hash, Events: evs})
}

func (w *jWorld) setFinalized(n uint64) {
	tip := w.l1.Tip()
	if n > tip {
		n = tip
	}
	if n < w.l1Finalized {
		n = w.l1Finalized
	}
	w.l1Finalized = n
	w.l1.SetPointers(tip, tip, n)
}

// finalizedInfoIdx: index of the latest L1 info leaf at or below the finalized L1 block (-1 if none).
func (w *jWorld) finalizedInfoIdx() int {
	idx := -1
	for i, r := range w.infos {
		if r.Block <= w.l1Finalized {
			idx = i
		}
	}
	return idx
}

type claimSrc struct {
	Mainnet bool
	Rollup  uint32
	Leaf    int
	Info    int
}

// claimable lists (source deposit, covering info leaf) pairs not yet claimed, with info leaf index <= maxInfo.
func (w *jWorld) claimable(maxInfo int) []claimSrc {
	var out []claimSrc
	for i := 0; i <= maxInfo && i < len(w.infos); i++ {
		r := w.infos[i]
		for j := 0; j < r.MainCount; j++ {
			if !w.claimed[fmt.Sprintf("m/%d", j)] {
				out = append(out, claimSrc{Mainnet: true, Leaf: j, Info: i})
			}
		}
		for id, cnt := range r.RollupCnt {
			for j := 0; j < cnt; j++ {
				if !w.claimed[fmt.Sprintf("r%d/%d", id, j)] {
					out = append(out, claimSrc{Rollup: id, Leaf: j, Info: i})
				}
			}
		}
	}
	// deterministic order
	for i := 1; i < len(out); i++ {
		for j := i; j > 0 && claimLess(out[j], out[j-1]); j-- {
			out[j], out[j-1] = out[j-1], out[j]
		}
	}
	return out
}

func claimLess(a, b claimSrc) bool {
	if a.Info != b.Info {
		return a.Info < b.Info
	}
	if a.Mainnet != b.Mainnet {
		return a.Mainnet
	}
	if a.Rollup != b.Rollup {
		return a.Rollup < b.Rollup
	}
	return a.Leaf < b.Leaf
}

// makeClaim builds the claim event (with valid proofs) the L2 bridge would emit + record for claiming src against its info leaf.
func (w *jWorld) makeClaim(src claimSrc, num, pos uint64) bridgesync.Claim {
	r := w.infos[src.Info]
	var d srcDep
	c := bridgesync.Claim{BlockNum: num, BlockPos: pos, TxHash: common.BigToHash(big.NewInt(int64(num*1000 + pos))), FromAddress: common.Address{0xc1},
		MainnetExitRoot: r.MER, RollupExitRoot: r.RER, GlobalExitRoot: r.GER, BlockTimestamp: num * 2}
	if src.Mainnet {
		d = w.mainDeps[src.Leaf]
		s := ref.NewSparse()
		for i := 0; i < r.MainCount; i++ {
			s.Set(uint32(i), w.mainDeps[i].leaf())
		}
		c.ProofLocalExitRoot = s.Proof(uint32(src.Leaf))
		c.GlobalIndex = ref.GlobalIndex(true, 0, uint32(src.Leaf))
		w.claimed[fmt.Sprintf("m/%d", src.Leaf)] = true
	} else {
		d = w.rollDeps[src.Rollup][src.Leaf]
		s := ref.NewSparse()
		for i := 0; i < r.RollupCnt[src.Rollup]; i++ {
			s.Set(uint32(i), w.rollDeps[src.Rollup][i].leaf())
		}
		c.ProofLocalExitRoot = s.Proof(uint32(src.Leaf))
		c.ProofRollupExitRoot = w.rollupSparse(r.RollupLERs).Proof(src.Rollup - 1)
		c.GlobalIndex = ref.GlobalIndex(false, src.Rollup-1, uint32(src.Leaf))
		w.claimed[fmt.Sprintf("r%d/%d", src.Rollup, src.Leaf)] = true
	}
	c.OriginNetwork, c.OriginAddress, c.DestinationNetwork, c.DestinationAddress = d.OrigNet, d.OrigAddr, d.DestNet, d.DestAddr
	c.Amount, c.Metadata, c.IsMessage = new(big.Int).Set(d.Amount), cpBytes(d.Meta), d.LeafType == 1
	return c
}

// addL2Block appends one L2 block with nBridges bridge exits and the given claims, and feeds it to the real L2 store.
func (w *jWorld) addL2Block(ch choose.Chooser, nBridges int, claims []claimSrc) error {
	num := w.l2next
	w.l2next++
	if !w.noJumps && len(w.l2blocks) > 0 && ch.Int(0, 11, "l2AlignedJump") == 11 {
		// the next event block is a whole number of thousands of blocks after the block that follows an earlier one: a
		// certificate range starts right after the block that was the newest when the previous certificate was built
		base := w.l2blocks[len(w.l2blocks)-1-ch.Int(0, min(3, len(w.l2blocks)-1), "alignedBase")].Num
		if t := base + 1 + uint64(choose.Pick(ch, []int{1, 1, 2, 3, 10}, "alignedThousands"))*1000; t > num {
			num = t
			w.l2next = num + 1
			w.jumped = true
		}
	}
	if ch.Int(0, 11, "l2NumberJump") == 11 && !w.noJumps {
		w.jumped = true
		// block numbers are not contiguous in the stores (blocks without events are not recorded): sometimes the next
		// event block is more than 2^16 blocks away, so a certificate's block range does not fit 16 bits
		w.l2next += 65536 + uint64(ch.Int(0, 5000, "l2JumpExtra"))
	}
	b := l2Block{Num: num}
	var evs []interface{}
	pos := uint64(0)
	for i := 0; i < nBridges; i++ {
		d := w.genDep(ch, jNetID)
		d.DestNet = uint32(ch.Int(0, 3, "destNet"))
		br := bridgesync.Bridge{BlockNum: num, BlockPos: pos, FromAddress: common.Address{0xb1}, TxHash: common.BigToHash(big.NewInt(int64(num*1000 + pos))),
			BlockTimestamp: num * 2, LeafType: d.LeafType, OriginNetwork: d.OrigNet, OriginAddress: d.OrigAddr, DestinationNetwork: d.DestNet,
			DestinationAddress: d.DestAddr, Amount: d.Amount, Metadata: d.Meta, DepositCount: uint32(len(w.l2roots))}
		w.l2front.Add(refBridgeLeaf(br))
		w.l2roots = append(w.l2roots, w.l2front.Root())
		b.Bridges = append(b.Bridges, br)
		cp := br
		cp.Amount, cp.Metadata = cpBig(br.Amount), cpBytes(br.Metadata)
		evs = append(evs, bridgesync.Event{Bridge: &cp})
		pos++
	}
	for _, src := range claims {
		c := w.makeClaim(src, num, pos)
		if src.Mainnet && ch.Int(0, 7, "strayRollupBitsInMainnetIndex") == 0 {
			// the bridge contract versions this repository binds ignore the rollup-index bits of a global index whose
			// mainnet flag is set (no InvalidGlobalIndex error in their ABI), so a claimer may leave anything there
			r := choose.Pick(ch, []uint64{1, 5, 1 << 24, 1<<32 - 1}, "strayBits")
			c.GlobalIndex = new(big.Int).Or(c.GlobalIndex, new(big.Int).Lsh(new(big.Int).SetUint64(r), 32))
			w.strayIdx++
		}
		b.Claims = append(b.Claims, c)
		cp := c
		cp.Amount, cp.GlobalIndex, cp.Metadata = cpBig(c.Amount), cpBig(c.GlobalIndex), cpBytes(c.Metadata)
		evs = append(evs, bridgesync.Event{Claim: &cp})
		pos++
	}
	w.l2blocks = append(w.l2blocks, b)
	return w.l2store.VerifProcessBlock(bg, aggkitsync.Block{Num: num, Hash: common.BigToHash(big.NewInt(int64(num) + 7777)), Events: evs})
}

// eventsIn returns the world's bridges and claims of L2 blocks [from, to] in chain order.
func (w *jWorld) eventsIn(from, to uint64) (brs []bridgesync.Bridge, cls []bridgesync.Claim) {
	for _, b := range w.l2blocks {
		if b.Num >= from && b.Num <= to {
			brs = append(brs, b.Bridges...)
			cls = append(cls, b.Claims...)
		}
	}
	return
}

func (w *jWorld) lastL2Block() uint64 { return w.l2next - 1 }

func (w *jWorld) infoIdxOfGER(g common.Hash) int {
	for i, r := range w.infos {
		if r.GER == g {
			return i
		}
	}
	return 1 << 30
}
