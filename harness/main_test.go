package harness

import (
	"encoding/json"
	"fmt"
	"os"
	"path/filepath"
	"strconv"
	"testing"

	"github.com/agglayer/aggkit/log"

	"verifharness/ev"
)

func TestMain(m *testing.M) {
	log.Init(log.Config{Environment: log.EnvironmentProduction, Level: "fatal", Outputs: []string{"stderr"}})
	code := m.Run()
	ev.FlushAll()
	os.Exit(code)
}

func tier() string {
	if t := os.Getenv("VERIF_TIER"); t != "" {
		return t
	}
	return "quick"
}

func thorough() bool { return tier() == "thorough" }

func shard() (k, n int) {
	k, _ = strconv.Atoi(os.Getenv("VERIF_SHARD"))
	n, _ = strconv.Atoi(os.Getenv("VERIF_SHARDS"))
	if n <= 0 {
		n = 1
	}
	return
}

// firstBatch reports whether this process is the first work item of its shard: exhaustive (enumerated) parts run there
// only, the other batches of a long run add random cases.
func firstBatch() bool { b := os.Getenv("VERIF_BATCH"); return b == "" || b == "0" }

// enumSlot: for exhaustive parts that are too large for one process (file descriptors, see helpers_test.go fatal), the
// enumeration is spread over all work items of the run: this process takes the cases whose ordinal is slot modulo nslots.
func enumSlot() (slot, nslots int) {
	k, n := shard()
	j, _ := strconv.Atoi(os.Getenv("VERIF_BATCH"))
	nb, _ := strconv.Atoi(os.Getenv("VERIF_BATCHES"))
	if nb <= 0 {
		nb = 1
	}
	if j >= nb {
		j = nb - 1
	}
	return k*nb + j, n * nb
}

// saveReplay writes a JSON replay file for failures found outside rapid (enumerator, tables).
func saveReplay(property string, v any) string {
	dir := os.Getenv("VERIF_REPLAY_OUT")
	if dir == "" {
		dir = os.TempDir()
	}
	b, _ := json.MarshalIndent(v, "", " ")
	p := filepath.Join(dir, fmt.Sprintf("%s-%d.json", property, os.Getpid()))
	_ = os.WriteFile(p, b, 0o644)
	return p
}

// loadReplay reads the JSON replay file named by VERIF_REPLAY_FILE into v; false if none.
func loadReplay(v any) bool {
	p := os.Getenv("VERIF_REPLAY_FILE")
	if p == "" || filepath.Ext(p) != ".json" {
		return false
	}
	b, err := os.ReadFile(p)
	if err != nil {
		return false
	}
	return json.Unmarshal(b, v) == nil
}
