package harness

import (
	"context"
	"errors"
	"fmt"
	"math/big"
	"sort"
	"testing"

	agglayertypes "github.com/agglayer/aggkit/agglayer/types"
	aggsenderdb "github.com/agglayer/aggkit/aggsender/db"
	"github.com/agglayer/aggkit/aggsender/flows"
	"github.com/agglayer/aggkit/aggsender/types"
	"github.com/agglayer/aggkit/bridgesync"
	"github.com/agglayer/aggkit/log"
	"github.com/ethereum/go-ethereum/common"
	"pgregory.net/rapid"

	"verifharness/ev"
)

// C17 — cutting a certificate's block range never drops, duplicates or reorders events.

const c17Rule = "case = (event layout over [from,to] with per-event metadata sizes, size limit, last-block limit, previous-certificate " +
	"state, flags) through baseFlow.GetCertificateBuildParamsInternal (limitCertSize), CertificateBuildParams.Range and " +
	"MaxL2BlockNumberLimiter.AdaptCertificate, or a pair of block ranges through BlockRange.Gap; non-trivial = a cut that removes " +
	">=1 event-bearing block and keeps >=1 event, or a range pair with an endpoint at 0 / 2^64-1 or touching/overlapping ranges; " +
	"distinct = hash of the layout+limits / the pair"

type c17Storage struct {
	aggsenderdb.AggSenderStorage // nil: any other method panics (none is reached)
	last                         *types.CertificateHeader
}

func (s *c17Storage) GetLastSentCertificateHeader() (*types.CertificateHeader, error) {
	return s.last, nil
}

type c17Querier struct {
	last    uint64
	bridges []bridgesync.Bridge
	claims  []bridgesync.Claim
}

func (q *c17Querier) GetBridgesAndClaims(_ context.Context, from, to uint64) ([]bridgesync.Bridge, []bridgesync.Claim, error) {
	var b []bridgesync.Bridge
	var c []bridgesync.Claim
	for _, x := range q.bridges {
		if x.BlockNum >= from && x.BlockNum <= to {
			b = append(b, x)
		}
	}
	for _, x := range q.claims {
		if x.BlockNum >= from && x.BlockNum <= to {
			c = append(c, x)
		}
	}
	return b, c, nil
}
func (q *c17Querier) GetExitRootByIndex(context.Context, uint32) (common.Hash, error) {
	return common.Hash{}, nil
}
func (q *c17Querier) GetLastProcessedBlock(context.Context) (uint64, error) { return q.last, nil }
func (q *c17Querier) OriginNetwork() uint32                                 { return 1 }
func (q *c17Querier) WaitForSyncerToCatchUp(context.Context, uint64) error  { return nil }

type c17Layout struct {
	From, To uint64
	Bridges  []bridgesync.Bridge
	Claims   []bridgesync.Claim
	Desc     string
}

func c17GenLayout(rt *rapid.T) c17Layout { return c17GenLayoutFrom(rt, false) }

// c17GenLayoutFrom: zeroFirst allows a range whose first block is 0 (the flows never build one - the first block is a
// previous block + 1 - but the exported sub-range filter accepts it, and {0,0} doubles as "no range" in BlockRange)
func c17GenLayoutFrom(rt *rapid.T, zeroFirst bool) c17Layout {
	from := rapid.OneOf(rapid.Uint64Range(1, 5), rapid.Uint64Range(1, 1<<40), rapid.Just(uint64(1))).Draw(rt, "from")
	if zeroFirst && rapid.IntRange(0, 3).Draw(rt, "firstBlockZero") == 0 {
		from = 0
	}
	nblocks := rapid.IntRange(1, 30).Draw(rt, "nblocks")
	l := c17Layout{From: from, To: from + uint64(nblocks) - 1}
	dc := uint32(rapid.IntRange(0, 1000).Draw(rt, "dc0"))
	metaLen := rapid.OneOf(rapid.Just(0), rapid.IntRange(0, 40), rapid.IntRange(0, 2048))
	desc := ""
	for b := l.From; b <= l.To; b++ {
		nb := rapid.SampledFrom([]int{0, 0, 0, 1, 1, 2, 4}).Draw(rt, "nb")
		nc := rapid.SampledFrom([]int{0, 0, 0, 0, 1, 2, 3}).Draw(rt, "nc")
		pos := uint64(0)
		for i := 0; i < nb; i++ {
			ml := metaLen.Draw(rt, "bml")
			l.Bridges = append(l.Bridges, bridgesync.Bridge{BlockNum: b, BlockPos: pos, DepositCount: dc, Metadata: make([]byte, ml),
				Amount: big.NewInt(int64(dc)), DestinationNetwork: uint32(i)})
			dc++
			pos++
		}
		for i := 0; i < nc; i++ {
			ml := metaLen.Draw(rt, "cml")
			l.Claims = append(l.Claims, bridgesync.Claim{BlockNum: b, BlockPos: pos, GlobalIndex: big.NewInt(int64(b)*100 + int64(i)),
				Metadata: make([]byte, ml), Amount: big.NewInt(1)})
			pos++
		}
		desc += fmt.Sprintf("%d/%d ", nb, nc)
	}
	l.Desc = desc
	return l
}

// prefix returns the layout's events of blocks <= t (the specification of "events of the kept blocks").
func (l c17Layout) prefix(t uint64) ([]bridgesync.Bridge, []bridgesync.Claim) {
	var b []bridgesync.Bridge
	var c []bridgesync.Claim
	for _, x := range l.Bridges {
		if x.BlockNum <= t {
			b = append(b, x)
		}
	}
	for _, x := range l.Claims {
		if x.BlockNum <= t {
			c = append(c, x)
		}
	}
	return b, c
}

func c17SameEvents(gotB []bridgesync.Bridge, gotC []bridgesync.Claim, wantB []bridgesync.Bridge, wantC []bridgesync.Claim) error {
	if len(gotB) != len(wantB) || len(gotC) != len(wantC) {
		return fmt.Errorf("event counts differ: got %d bridges/%d claims, want %d/%d", len(gotB), len(gotC), len(wantB), len(wantC))
	}
	for i := range wantB {
		if gotB[i].BlockNum != wantB[i].BlockNum || gotB[i].BlockPos != wantB[i].BlockPos || gotB[i].DepositCount != wantB[i].DepositCount ||
			len(gotB[i].Metadata) != len(wantB[i].Metadata) {
			return fmt.Errorf("bridge %d differs: got (blk %d pos %d dc %d) want (blk %d pos %d dc %d)", i,
				gotB[i].BlockNum, gotB[i].BlockPos, gotB[i].DepositCount, wantB[i].BlockNum, wantB[i].BlockPos, wantB[i].DepositCount)
		}
	}
	for i := range wantC {
		if gotC[i].BlockNum != wantC[i].BlockNum || gotC[i].BlockPos != wantC[i].BlockPos || gotC[i].GlobalIndex.Cmp(wantC[i].GlobalIndex) != 0 {
			return fmt.Errorf("claim %d differs: got (blk %d pos %d) want (blk %d pos %d)", i,
				gotC[i].BlockNum, gotC[i].BlockPos, wantC[i].BlockNum, wantC[i].BlockPos)
		}
	}
	return nil
}

func (l c17Layout) size(t uint64, ct types.CertificateType) uint {
	b, c := l.prefix(t)
	return (&types.CertificateBuildParams{FromBlock: l.From, ToBlock: t, Bridges: b, Claims: c, CertificateType: ct}).EstimatedSize()
}

// cutPoints: the block numbers at which the size of a prefix can change, in increasing order: the first block, the block
// before every event block, the event blocks, the last block. The size is constant between two of them, so the largest
// permitted last block is one of them (this keeps the specification usable for ranges of billions of event-less blocks).
func (l c17Layout) cutPoints() []uint64 {
	set := map[uint64]bool{l.From: true, l.To: true}
	add := func(n uint64) {
		if n > l.From && n <= l.To {
			set[n-1] = true
			set[n] = true
		}
	}
	for _, x := range l.Bridges {
		add(x.BlockNum)
	}
	for _, x := range l.Claims {
		add(x.BlockNum)
	}
	var out []uint64
	for n := range set {
		out = append(out, n)
	}
	sort.Slice(out, func(i, j int) bool { return out[i] < out[j] })
	return out
}

func eventBlocksBetween(l c17Layout, lo, hi uint64) int { // blocks in (lo, hi] that bear events
	seen := map[uint64]bool{}
	for _, x := range l.Bridges {
		if x.BlockNum > lo && x.BlockNum <= hi {
			seen[x.BlockNum] = true
		}
	}
	for _, x := range l.Claims {
		if x.BlockNum > lo && x.BlockNum <= hi {
			seen[x.BlockNum] = true
		}
	}
	return len(seen)
}

func c17SizeLimit(rt *rapid.T, rec *ev.Recorder) {
	l := c17GenLayout(rt)
	ct := rapid.SampledFrom([]types.CertificateType{types.CertificateTypePP, types.CertificateTypeFEP}).Draw(rt, "certType")
	far := rapid.IntRange(0, 9).Draw(rt, "farApartBlocks") == 0 && len(l.Bridges)+len(l.Claims) >= 2
	if far {
		// a range of billions of blocks with events only in its first and last block (a chain that was quiet for a very long
		// time): the events of the generated layout's later blocks all move to the last block. The limit is chosen so that
		// everything but the last block fits (the code under test shrinks one block at a time).
		span := rapid.SampledFrom([]uint64{1 << 32, 1<<32 + 1, 1<<32 - 1, 1 << 33, 3 << 31}).Draw(rt, "span")
		last := l.From + span
		for i := range l.Bridges {
			if l.Bridges[i].BlockNum != l.From {
				l.Bridges[i].BlockNum = last
			}
		}
		for i := range l.Claims {
			if l.Claims[i].BlockNum != l.From {
				l.Claims[i].BlockNum = last
			}
		}
		l.To = last
		l.Desc += fmt.Sprintf("(first and last block %d apart)", span)
	}
	// limit: 0, tiny, around a prefix size +-1, huge
	var limit uint
	switch rapid.IntRange(0, 5).Draw(rt, "limitKind") {
	case 0:
		limit = 0
	case 1:
		limit = uint(rapid.IntRange(1, 100).Draw(rt, "tiny"))
	case 5:
		limit = 1 << 40
	default:
		t := l.From + uint64(rapid.IntRange(0, int(l.To-l.From)).Draw(rt, "around"))
		s := int64(l.size(t, ct)) + int64(rapid.IntRange(-1, 1).Draw(rt, "delta"))
		if s < 1 {
			s = 1
		}
		limit = uint(s)
	}
	if far {
		if a, b := l.size(l.To-1, ct), l.size(l.To, ct); b > a {
			limit = a + uint(rapid.IntRange(0, int(b-a-1)).Draw(rt, "farLimit"))
		} else {
			limit = 0 // the last block holds nothing: no cut needed
		}
	}
	prev := rapid.IntRange(0, 2).Draw(rt, "prevState") // 0 none, 1 settled, 2 in error (retry)
	if far && prev == 2 {
		prev = 1 // (the retry case draws a block inside the range)
	}
	var last *types.CertificateHeader
	startL2 := uint64(0)
	switch prev {
	case 0:
		startL2 = l.From - 1
	case 1:
		last = &types.CertificateHeader{Height: 3, FromBlock: 1, ToBlock: l.From - 1, Status: agglayertypes.Settled}
	case 2:
		last = &types.CertificateHeader{Height: 3, FromBlock: l.From, ToBlock: l.From + uint64(rapid.IntRange(0, int(l.To-l.From)).Draw(rt, "errTo")),
			Status: agglayertypes.InError, RetryCount: rapid.IntRange(0, 3).Draw(rt, "retries")}
	}
	q := &c17Querier{last: l.To, bridges: l.Bridges, claims: l.Claims}
	bf := flows.NewBaseFlow(log.WithFields("module", "c17"), q, &c17Storage{last: last}, nil, nil, flows.NewBaseFlowConfig(limit, startL2, false))
	got, err := bf.GetCertificateBuildParamsInternal(context.Background(), ct)
	if err != nil {
		rt.Fatalf("GetCertificateBuildParamsInternal failed on a valid layout: %v", err)
	}
	// specification
	judge := func(l c17Layout, got *types.CertificateBuildParams) uint64 {
		want := l.To
		if limit != 0 {
			want = l.From
			pts := l.cutPoints()
			for i := len(pts) - 1; i >= 0; i-- {
				if l.size(pts[i], ct) <= limit {
					want = pts[i]
					break
				}
			}
		}
		// monotonicity of the size estimate in the prefix (the cut relies on it)
		var prevSize uint
		for _, t := range l.cutPoints() {
			s := l.size(t, ct)
			if s < prevSize {
				rt.Fatalf("EstimatedSize not monotone in the prefix: size(<=%d)=%d is below the size of a shorter prefix (%d)", t, s, prevSize)
			}
			prevSize = s
		}
		if got.FromBlock != l.From {
			rt.Fatalf("first block changed: got %d want %d", got.FromBlock, l.From)
		}
		if got.ToBlock != want {
			rt.Fatalf("layout[%s] from=%d limit=%d: cut ends at %d, largest permitted block is %d (size there %d, size at %d is %d)",
				l.Desc, l.From, limit, got.ToBlock, want, l.size(want, ct), want+1, l.size(min64(want+1, l.To), ct))
		}
		wb, wc := l.prefix(want)
		if err := c17SameEvents(got.Bridges, got.Claims, wb, wc); err != nil {
			rt.Fatalf("layout[%s] limit=%d cut to %d: %v", l.Desc, limit, want, err)
		}
		if limit != 0 && got.EstimatedSize() > limit && got.ToBlock != got.FromBlock {
			rt.Fatalf("result exceeds the limit (%d > %d) although it spans %d blocks", got.EstimatedSize(), limit, got.ToBlock-got.FromBlock+1)
		}
		return want
	}
	want := judge(l, got)
	if limit != 0 && !far && rapid.IntRange(0, 2).Draw(rt, "sameFlowObjectAgain") == 0 {
		// the same flow object is asked again for the same block range holding other events (what it sees after the L2
		// syncer re-synced a reorged range up to the same tip): cutting is a function of the events it is given
		l2 := c17GenLayout(rt)
		shift := func(n uint64) uint64 { return l.From + (n - l2.From) }
		var bs []bridgesync.Bridge
		var cs []bridgesync.Claim
		for _, x := range l2.Bridges {
			if x.BlockNum = shift(x.BlockNum); x.BlockNum <= l.To {
				bs = append(bs, x)
			}
		}
		for _, x := range l2.Claims {
			if x.BlockNum = shift(x.BlockNum); x.BlockNum <= l.To {
				cs = append(cs, x)
			}
		}
		l2.From, l2.To, l2.Bridges, l2.Claims, l2.Desc = l.From, l.To, bs, cs, l2.Desc+"(second request on the same flow object)"
		q.bridges, q.claims = bs, cs
		got2, err := bf.GetCertificateBuildParamsInternal(context.Background(), ct)
		if err != nil {
			rt.Fatalf("second GetCertificateBuildParamsInternal on the same flow object failed on a valid layout: %v", err)
		}
		judge(l2, got2)
		rec.Class("size_limit_same_flow_object_asked_twice")
	}
	wb, wc := l.prefix(want)
	if prev == 2 && (got.RetryCount != last.RetryCount+1 || !got.IsARetry()) {
		rt.Fatalf("retry bookkeeping lost: %d", got.RetryCount)
	}
	nt := want < l.To && eventBlocksBetween(l, want, l.To) >= 1 && len(wb)+len(wc) >= 1
	rec.Case(nt, fmt.Sprintf("size|%s|%d|%d|%d|%d", l.Desc, l.From, limit, ct, prev))
	rec.Class("size_limit")
	if nt {
		rec.Class("size_limit_cut_nontrivial")
		if rec.WantSample() {
			rec.Sample(map[string]any{"kind": "size-limit", "from": l.From, "to": l.To, "bridges/claims per block": l.Desc, "limit": limit, "cut_to": want, "prev": prev})
		}
	}
}

func c17Range(rt *rapid.T, rec *ev.Recorder) {
	l := c17GenLayoutFrom(rt, true)
	p := &types.CertificateBuildParams{FromBlock: l.From, ToBlock: l.To, Bridges: l.Bridges, Claims: l.Claims, CreatedAt: 77, RetryCount: 2,
		L1InfoTreeLeafCount: 9, CertificateType: types.CertificateTypeFEP}
	lo := l.From + uint64(rapid.IntRange(0, int(l.To-l.From)).Draw(rt, "lo"))
	hi := lo + uint64(rapid.IntRange(0, int(l.To-lo)).Draw(rt, "hi"))
	if rapid.IntRange(0, 3).Draw(rt, "cutToFirstBlock") == 0 {
		lo, hi = l.From, l.From
	}
	got, err := p.Range(lo, hi)
	if err != nil {
		rt.Fatalf("Range(%d,%d) of [%d,%d] failed: %v", lo, hi, l.From, l.To, err)
	}
	var wb []bridgesync.Bridge
	var wc []bridgesync.Claim
	for _, x := range l.Bridges {
		if x.BlockNum >= lo && x.BlockNum <= hi {
			wb = append(wb, x)
		}
	}
	for _, x := range l.Claims {
		if x.BlockNum >= lo && x.BlockNum <= hi {
			wc = append(wc, x)
		}
	}
	if got.FromBlock != lo || got.ToBlock != hi {
		rt.Fatalf("Range(%d,%d) returned [%d,%d]", lo, hi, got.FromBlock, got.ToBlock)
	}
	if err := c17SameEvents(got.Bridges, got.Claims, wb, wc); err != nil {
		rt.Fatalf("Range(%d,%d) of layout[%s] from %d: %v", lo, hi, l.Desc, l.From, err)
	}
	if got.CreatedAt != 77 || got.RetryCount != 2 || got.L1InfoTreeLeafCount != 9 || got.CertificateType != types.CertificateTypeFEP {
		rt.Fatalf("Range lost bookkeeping fields: %+v", got)
	}
	// outside ranges are rejected
	if _, err := p.Range(l.From, l.To+1); err == nil {
		rt.Fatalf("Range beyond ToBlock accepted")
	}
	nt := (lo > l.From || hi < l.To) && len(wb)+len(wc) >= 1 && len(wb)+len(wc) < len(l.Bridges)+len(l.Claims)
	rec.Case(nt, fmt.Sprintf("range|%s|%d|%d|%d", l.Desc, l.From, lo, hi))
	rec.Class("range")
}

func c17LastBlock(rt *rapid.T, rec *ev.Recorder) {
	l := c17GenLayout(rt)
	var max uint64
	switch rapid.IntRange(0, 6).Draw(rt, "maxKind") {
	case 0:
		max = 0
	case 1:
		if l.From >= 2 {
			max = l.From - 2
		}
	case 2:
		max = l.From - 1
	case 3:
		max = l.To
	case 4:
		max = l.To + uint64(rapid.IntRange(1, 100).Draw(rt, "beyond"))
	default:
		max = l.From + uint64(rapid.IntRange(0, int(l.To-l.From)).Draw(rt, "inside"))
	}
	retry := rapid.Bool().Draw(rt, "retry")
	allowResize := rapid.Bool().Draw(rt, "allowResize")
	requireBridge := rapid.Bool().Draw(rt, "requireBridge")
	p := &types.CertificateBuildParams{FromBlock: l.From, ToBlock: l.To, Bridges: l.Bridges, Claims: l.Claims, CertificateType: types.CertificateTypePP}
	if retry {
		p.RetryCount = 1
		p.LastSentCertificate = &types.CertificateHeader{FromBlock: l.From, ToBlock: l.To, Status: agglayertypes.InError}
	}
	lim := flows.NewMaxL2BlockNumberLimiter(max, log.WithFields("module", "c17"), allowResize, requireBridge)
	got, err := lim.AdaptCertificate(p)
	key := fmt.Sprintf("last|%s|%d|%d|%v%v%v", l.Desc, l.From, max, retry, allowResize, requireBridge)
	if max == 0 || l.To <= max {
		// nothing to cut: must come back unchanged
		if err != nil || got == nil || got.FromBlock != l.From || got.ToBlock != l.To {
			rt.Fatalf("limiter max=%d changed/refused a certificate [%d,%d] that respects it: %v %v", max, l.From, l.To, got, err)
		}
		if e := c17SameEvents(got.Bridges, got.Claims, l.Bridges, l.Claims); e != nil {
			rt.Fatalf("limiter max=%d, no cut needed: %v", max, e)
		}
		rec.Case(false, key)
		rec.Class("last_block_nocut")
		return
	}
	if err != nil {
		// a refusal is not a wrong cut; which refusals are legitimate is the limiter's policy. Sanity: a refusal
		// never comes with a result, and the documented sentinel errors are used for the documented situations.
		if got != nil {
			rt.Fatalf("limiter returned both a result and an error")
		}
		if retry && !allowResize && !errors.Is(err, flows.ErrMaxL2BlockNumberExceededInARetryCert) {
			rt.Fatalf("retry certificate that may not be resized: unexpected error kind %v", err)
		}
		// "complete" ends the certificate stream for good: it may only be declared when no sendable event is left at or
		// below the limit, otherwise the events of [from, max] are dropped for ever
		if errors.Is(err, flows.ErrComplete) && l.From <= max {
			wb, wc := l.prefix(max)
			if len(wb) >= 1 || (!requireBridge && len(wc) >= 1) {
				rt.Fatalf("limiter max=%d on [%d,%d] (layout[%s]) declared the stream complete although blocks [%d,%d] still hold %d bridges / %d claims that were never certified: %v",
					max, l.From, l.To, l.Desc, l.From, max, len(wb), len(wc), err)
			}
		}
		rec.Case(false, key)
		rec.Class("last_block_refused")
		return
	}
	if retry && !allowResize {
		rt.Fatalf("a retry certificate was cut although resizing retries is not allowed (max=%d, [%d,%d] -> [%d,%d])", max, l.From, l.To, got.FromBlock, got.ToBlock)
	}
	if got.FromBlock != l.From || got.ToBlock != max {
		rt.Fatalf("limiter max=%d on [%d,%d] returned [%d,%d]", max, l.From, l.To, got.FromBlock, got.ToBlock)
	}
	wb, wc := l.prefix(max)
	if e := c17SameEvents(got.Bridges, got.Claims, wb, wc); e != nil {
		rt.Fatalf("limiter max=%d on layout[%s] from %d: %v", max, l.Desc, l.From, e)
	}
	if requireBridge && len(got.Bridges) == 0 {
		rt.Fatalf("limiter returned a certificate without bridges although one is required")
	}
	nt := eventBlocksBetween(l, max, l.To) >= 1 && len(wb)+len(wc) >= 1
	rec.Case(nt, key)
	rec.Class("last_block_cut")
	if nt && rec.WantSample() {
		rec.Sample(map[string]any{"kind": "last-block-limit", "from": l.From, "to": l.To, "bridges/claims per block": l.Desc, "max": max, "retry": retry})
	}
}

var c17Endpoints = []uint64{0, 1, 2, 5, 1 << 63, 1<<64 - 2, 1<<64 - 1}

func c17GapCheck(a1, a2, b1, b2 uint64) error {
	A := types.NewBlockRange(a1, a2)
	B := types.NewBlockRange(b1, b2)
	g := A.Gap(B)
	g2 := B.Gap(A)
	if g != g2 {
		return fmt.Errorf("Gap not symmetric: %v.Gap(%v)=%v, reverse=%v", A, B, g, g2)
	}
	bi := func(x uint64) *big.Int { return new(big.Int).SetUint64(x) }
	one := big.NewInt(1)
	touch := new(big.Int).Add(bi(a2), one).Cmp(bi(b1)) >= 0 && new(big.Int).Add(bi(b2), one).Cmp(bi(a1)) >= 0
	if touch {
		if !g.IsEmpty() {
			return fmt.Errorf("gap %v reported between touching/overlapping ranges [%d,%d] and [%d,%d]", g, a1, a2, b1, b2)
		}
		return nil
	}
	var lo, hi uint64
	if a2 < b1 {
		lo, hi = a2+1, b1-1
	} else {
		lo, hi = b2+1, a1-1
	}
	if g.FromBlock != lo || g.ToBlock != hi || g.IsEmpty() {
		return fmt.Errorf("gap between [%d,%d] and [%d,%d] is [%d,%d], got %v (empty=%v)", a1, a2, b1, b2, lo, hi, g, g.IsEmpty())
	}
	return nil
}

func c17GapNonTrivial(a1, a2, b1, b2 uint64) bool {
	ext := func(x uint64) bool { return x == 0 || x == 1<<64-1 }
	touch := (a2 == 1<<64-1 || a2+1 >= b1) && (b2 == 1<<64-1 || b2+1 >= a1)
	return ext(a1) || ext(a2) || ext(b1) || ext(b2) || touch
}

func TestC17(t *testing.T) {
	rec := ev.For("C17", c17Rule)
	var rp struct {
		Gap []uint64 `json:"gap"`
	}
	if loadReplay(&rp) && len(rp.Gap) == 4 {
		if err := c17GapCheck(rp.Gap[0], rp.Gap[1], rp.Gap[2], rp.Gap[3]); err != nil {
			t.Fatalf("replay: %v", err)
		}
		return
	}
	// exhaustive endpoint pairs for Gap
	n := 0
	for _, a1 := range c17Endpoints {
		for _, a2 := range c17Endpoints {
			for _, b1 := range c17Endpoints {
				for _, b2 := range c17Endpoints {
					if a1 > a2 || b1 > b2 {
						continue
					}
					n++
					rec.Case(c17GapNonTrivial(a1, a2, b1, b2), fmt.Sprint("gap", a1, a2, b1, b2))
					if err := c17GapCheck(a1, a2, b1, b2); err != nil {
						p := saveReplay("C17", map[string]any{"gap": []uint64{a1, a2, b1, b2}})
						t.Fatalf("%v (replay %s)", err, p)
					}
				}
			}
		}
	}
	rec.Set("gap_endpoint_pairs_exhaustive", n)
	rec.Sample(map[string]any{"kind": "gap", "a": []uint64{0, 0}, "b": []uint64{2, 1<<64 - 1}})
	rapid.Check(t, func(rt *rapid.T) { c17Prop(rt, rec) })
}

var c17Ep = rapid.OneOf(rapid.SampledFrom(c17Endpoints), rapid.Uint64(), rapid.Uint64Range(0, 50))

func c17Prop(rt *rapid.T, rec *ev.Recorder) {
	ep := c17Ep
	switch rapid.IntRange(0, 3).Draw(rt, "kind") {
	case 0:
		c17SizeLimit(rt, rec)
	case 1:
		c17Range(rt, rec)
	case 2:
		c17LastBlock(rt, rec)
	default:
		a1, a2, b1, b2 := ep.Draw(rt, "a1"), ep.Draw(rt, "a2"), ep.Draw(rt, "b1"), ep.Draw(rt, "b2")
		if a1 > a2 {
			a1, a2 = a2, a1
		}
		if b1 > b2 {
			b1, b2 = b2, b1
		}
		rec.Case(c17GapNonTrivial(a1, a2, b1, b2), fmt.Sprint("gap", a1, a2, b1, b2))
		rec.Class("gap_random")
		if err := c17GapCheck(a1, a2, b1, b2); err != nil {
			rt.Fatalf("%v", err)
		}
	}
}

// FuzzC17: the same property driven by Go's coverage-guided fuzzer through rapid's byte-stream adapter (thorough tier).
func FuzzC17(f *testing.F) {
	rec := ev.For("C17", c17Rule)
	f.Fuzz(rapid.MakeFuzz(func(rt *rapid.T) { c17Prop(rt, rec) }))
}
