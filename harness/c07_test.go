package harness

import (
	"context"
	"database/sql"
	"fmt"
	"strings"
	"sync"
	"testing"
	"time"

	"pgregory.net/rapid"

	"verifharness/ev"
)

// C07 — block processing is all-or-nothing under faults and crashes; retry is clean.

const c07Rule = "case = (store, generated history, target block, fault plan); faults are injected with SQL triggers from a second " +
	"connection: the K-th row-writing statement of the target block's transaction fails, for EVERY K of that transaction in turn " +
	"(enumerated), plus cancelled contexts and restarts; after each failed attempt the tables must equal the pre-block snapshot, " +
	"after the retry they must equal a fault-free twin, and after the remaining blocks every query/root/proof must equal the " +
	"twin's; non-trivial = a failed statement preceded by >=1 successful tree insertion in the same transaction (a block with " +
	">=2 tree leaves, fault after the first); distinct = hash of (store, per-block event kinds, target, K)"

const faultTables = "vf_cnt"

// faultInjector installs counting triggers on every table of a store's database: the K-th row written (INSERT, or row
// deleted/updated) since arming raises FAIL (the statement fails; the counter increment is kept, so a transaction that
// commits anyway proves that it swallowed the failure). The counter lives in the same transaction, so it restarts with every attempt.
type faultInjector struct {
	db     *sql.DB
	tables []string
}

func newFaultInjector(path string) *faultInjector {
	d := rawDB(path)
	f := &faultInjector{db: d}
	rows, err := d.Query(`SELECT name FROM sqlite_master WHERE type='table' AND name NOT LIKE 'sqlite_%' AND name NOT LIKE 'vf_%' AND name <> 'gorp_migrations'`)
	if err != nil {
		panic(err)
	}
	for rows.Next() {
		var n string
		_ = rows.Scan(&n)
		f.tables = append(f.tables, n)
	}
	rows.Close()
	f.exec(`CREATE TABLE IF NOT EXISTS vf_cnt (id INTEGER PRIMARY KEY, n INTEGER NOT NULL, failat INTEGER NOT NULL)`)
	f.exec(`INSERT OR REPLACE INTO vf_cnt (id, n, failat) VALUES (1, 0, 0)`)
	return f
}

func (f *faultInjector) exec(q string, a ...any) {
	var err error
	for i := 0; i < 8; i++ {
		if _, err = f.db.Exec(q, a...); err == nil {
			return
		}
		if !strings.Contains(err.Error(), "locked") && !strings.Contains(err.Error(), "busy") {
			break
		}
		time.Sleep(2 * time.Millisecond)
	}
	panic(fmt.Sprintf("fault injector: %s: %v", q, err))
}

// arm makes the K-th written row fail (K=0: count only).
func (f *faultInjector) arm(k int) { f.armWith(k, "FAIL") }

// armAbort: like arm, but the failing statement is backed out entirely (SQLite's default for a failing statement). Needed
// where the tested code runs a multi-row statement outside a transaction: RAISE(FAIL) would keep the rows the statement
// had already changed, which no real storage fault does.
func (f *faultInjector) armAbort(k int) { f.armWith(k, "ABORT") }

func (f *faultInjector) armWith(k int, how string) {
	f.exec(`UPDATE vf_cnt SET n = 0, failat = ? WHERE id = 1`, k)
	for _, t := range f.tables {
		for _, op := range []string{"INSERT", "DELETE", "UPDATE"} {
			f.exec(fmt.Sprintf(`CREATE TRIGGER IF NOT EXISTS vf_%s_%s BEFORE %s ON %s BEGIN
				UPDATE vf_cnt SET n = n + 1 WHERE id = 1;
				SELECT RAISE(%s, 'verif injected storage fault') WHERE (SELECT n FROM vf_cnt WHERE id = 1) = (SELECT failat FROM vf_cnt WHERE id = 1);
			END`, t, op, op, t, how))
		}
	}
}

func (f *faultInjector) disarm() {
	for _, t := range f.tables {
		for _, op := range []string{"INSERT", "DELETE", "UPDATE"} {
			f.exec(fmt.Sprintf(`DROP TRIGGER IF EXISTS vf_%s_%s`, t, op))
		}
	}
}

// count returns the number of rows written since arming (committed transactions only).
func (f *faultInjector) count() int {
	var n int
	if err := f.db.QueryRow(`SELECT n FROM vf_cnt WHERE id = 1`).Scan(&n); err != nil {
		panic(err)
	}
	return n
}

func (f *faultInjector) close() { _ = f.db.Close() }

// snapshotRHT remembers the content-addressed node tables; restoreRHT deletes every node added since. The stores never
// prune these tables on reorg, so without this a block that is processed, reorged and processed again writes fewer rows
// the second time (its nodes already exist) and "the K-th statement" would not mean the same statement in every attempt.
func (f *faultInjector) snapshotRHT() {
	for _, t := range f.tables {
		if strings.HasSuffix(t, "rht") {
			f.exec("DROP TABLE IF EXISTS vf_snap_" + t)
			f.exec("CREATE TABLE vf_snap_" + t + " AS SELECT hash FROM " + t)
		}
	}
}

// hideRHT makes every statement that touches a node table fail ("no such table") by renaming the tables from the second
// connection; unhideRHT renames them back. This is the read fault of the plan: rebuilding the tree's frontier cache reads
// the node table, and triggers cannot fail a SELECT.
func (f *faultInjector) hideRHT() int {
	n := 0
	for _, t := range f.tables {
		if strings.HasSuffix(t, "rht") {
			f.exec("ALTER TABLE " + t + " RENAME TO vf_hidden_" + t)
			n++
		}
	}
	return n
}

func (f *faultInjector) unhideRHT() {
	for _, t := range f.tables {
		if strings.HasSuffix(t, "rht") {
			f.exec("ALTER TABLE vf_hidden_" + t + " RENAME TO " + t)
		}
	}
}

// failReadsRHT makes every SELECT on a node table fail at run time while INSERTs still work: the table is renamed and
// replaced by a view whose query raises "integer overflow", with an INSTEAD OF INSERT trigger that writes through.
func (f *faultInjector) failReadsRHT() int {
	n := 0
	for _, t := range f.tables {
		if strings.HasSuffix(t, "rht") {
			f.exec("ALTER TABLE " + t + " RENAME TO vf_hidden_" + t)
			f.exec("CREATE VIEW " + t + " AS SELECT hash, left, right FROM vf_hidden_" + t + " WHERE abs(-9223372036854775807 - 1) >= 0")
			f.exec("CREATE TRIGGER vf_wr_" + t + " INSTEAD OF INSERT ON " + t + " BEGIN INSERT INTO vf_hidden_" + t + " (hash, left, right) VALUES (NEW.hash, NEW.left, NEW.right); END")
			n++
		}
	}
	return n
}

func (f *faultInjector) restoreReadsRHT() {
	for _, t := range f.tables {
		if strings.HasSuffix(t, "rht") {
			f.exec("DROP TRIGGER IF EXISTS vf_wr_" + t)
			f.exec("DROP VIEW IF EXISTS " + t)
			f.exec("ALTER TABLE vf_hidden_" + t + " RENAME TO " + t)
		}
	}
}

func (f *faultInjector) restoreRHT() {
	for _, t := range f.tables {
		if strings.HasSuffix(t, "rht") {
			f.exec("DELETE FROM " + t + " WHERE hash NOT IN (SELECT hash FROM vf_snap_" + t + ")")
		}
	}
}

func treeLeaves(b blkSpec) int {
	n := 0
	for _, e := range b.Evs {
		if e.Bridge != nil || e.Info != nil || (e.Verify != nil) {
			n++
		}
	}
	return n
}

// statementsBeforeSecondLeaf: rows written by the transaction up to and including the first tree insertion (block row +
// events before + root + up to 32 nodes + event row). Used only for the non-triviality classification.
func c07Prop(rt *rapid.T, rec *ev.Recorder) {
	k := storeKind(rapid.SampledFrom([]int{0, 0, 1, 1, 2}).Draw(rt, "store"))
	mode := rapid.IntRange(0, 3).Draw(rt, "mode") // 0,1,2: enumerate every statement; 3: random fault sequence without reorg
	// the enumeration undoes each retried block with Reorg; removal events are kept out of it because undoing them by
	// reorg is the known finding F3/F4 of C04 (they are exercised by the sequence mode, which never reorgs)
	opts := genOpts{forceMulti: true, withV2: true, maxEvents: 5, noDestroy: mode < 3}
	n := rapid.IntRange(2, 7).Draw(rt, "nBlocks")
	hist := genHistory(rt, k, nil, n, opts)
	target := rapid.IntRange(0, n-1).Draw(rt, "target")
	// prefer a target with events
	for i := 0; i < n && len(hist[target].Evs) == 0; i++ {
		target = (target + 1) % n
	}

	// fault-free twin
	pathT, cleanT := tmpDB("twin")
	defer cleanT()
	T, err := openStore(k, pathT)
	if err != nil {
		fatal(rt, "open twin: %v", err)
	}
	defer func() { T.close() }()
	injT := newFaultInjector(pathT)
	for i := 0; i <= target; i++ {
		if i == target {
			injT.arm(0) // count the rows the clean transaction of the target block writes
		}
		if err := T.process(hist[i]); err != nil {
			injT.close()
			fatal(rt, "twin refused valid block %s: %v", hist[i].brief(), err)
		}
	}
	injT.disarm()
	total := injT.count()
	injT.exec("DROP TABLE vf_cnt")
	injT.close()
	twinAtTarget := dumpTables(pathT, "rht", faultTables)

	pathS, cleanS := tmpDB("S")
	defer func() { cleanS() }()
	S, err := openStore(k, pathS)
	if err != nil {
		fatal(rt, "open: %v", err)
	}
	defer func() { S.close() }()
	for i := 0; i < target; i++ {
		if err := S.process(hist[i]); err != nil {
			fatal(rt, "store refused valid block %s: %v", hist[i].brief(), err)
		}
	}
	inj := newFaultInjector(pathS)
	defer func() { inj.close() }()
	tb := hist[target]
	key := fmt.Sprintf("%s|%v|t%d|", k, briefs(hist), target)
	lastBefore := lastProcessed(S)

	attempt := func(kth int, label string) {
		pre := dumpTables(pathS, faultTables)
		inj.arm(kth)
		err := S.process(tb)
		inj.disarm()
		if err == nil {
			if d := diffDumps(pre, dumpTables(pathS, faultTables)); d == "" {
				fatal(rt, "[%s] %s: ProcessBlock(%s) reported success although storage statement #%d of its transaction failed, and nothing of the block is recorded (the failure was swallowed, the transaction rolled back)", k, label, tb.brief(), kth)
			}
			if inj.count() < kth {
				fatal(rt, "INCONCLUSIVE: harness: the transaction wrote %d rows, fewer than the %d of the clean run", inj.count(), total)
			}
			fatal(rt, "[%s] %s: ProcessBlock(%s) succeeded although storage statement #%d of its transaction failed", k, label, tb.brief(), kth)
		}
		post := dumpTables(pathS, faultTables)
		if d := diffDumps(pre, post); d != "" {
			fatal(rt, "[%s] %s: after a failed ProcessBlock(%s) (statement #%d failed: %v) part of the block is visible:\n%s", k, label, tb.brief(), kth, err, d)
		}
		if lp := lastProcessed(S); lp != lastBefore {
			fatal(rt, "[%s] %s: last processed block moved %d -> %d although the block failed", k, label, lastBefore, lp)
		}
	}
	retryAndCheck := func(label string) {
		if err := S.process(tb); err != nil {
			fatal(rt, "[%s] %s: retry of block %s after the fault was removed fails: %v", k, label, tb.brief(), err)
		}
		got := dumpTables(pathS, "rht", faultTables)
		if d := diffDumps(got, twinAtTarget); d != "" {
			fatal(rt, "[%s] %s: after the retry of block %s the state differs from a run without the failure (A=after retry, B=fault-free):\n%s", k, label, tb.brief(), d)
		}
	}

	// nodeTableFault: the node tables are unreadable and unwritable during one attempt (after a restart, so that the
	// attempt has to rebuild the frontier cache from them); returns false when the block went in regardless (no tree leaf)
	nodeTableFault := func(label string) bool {
		if err := S.restart(); err != nil {
			fatal(rt, "restart: %v", err)
		}
		pre := dumpTables(pathS, faultTables)
		if inj.hideRHT() == 0 {
			return true
		}
		err := S.process(tb)
		inj.unhideRHT()
		if err == nil {
			// a VerifyBatches event only writes tree nodes when it changes the rollup's exit root
			sure := false
			for _, e := range tb.Evs {
				sure = sure || e.Bridge != nil || e.Info != nil
			}
			if sure {
				fatal(rt, "[%s] %s: ProcessBlock(%s) succeeded although the tree node tables could not be read or written", k, label, tb.brief())
			}
			return false
		}
		if d := diffDumps(pre, dumpTables(pathS, faultTables)); d != "" {
			fatal(rt, "[%s] %s: after a failed ProcessBlock(%s) (node tables unavailable: %v) part of the block is visible:\n%s", k, label, tb.brief(), err, d)
		}
		rec.Class("fault_node_tables_unavailable")
		return true
	}

	// nodeReadFault: every read of a node table fails during one attempt while writes still work. The attempt either
	// fails and leaves nothing behind, or - when it needs no node read - succeeds with exactly the fault-free result.
	// Returns false when the block went in.
	nodeReadFault := func(label string, restart bool) bool {
		if restart {
			if err := S.restart(); err != nil {
				fatal(rt, "restart: %v", err)
			}
		}
		pre := dumpTables(pathS, faultTables)
		if inj.failReadsRHT() == 0 {
			return true
		}
		err := S.process(tb)
		inj.restoreReadsRHT()
		rec.Class("fault_node_reads_fail")
		if err == nil {
			got := dumpTables(pathS, "rht", faultTables)
			if d := diffDumps(got, twinAtTarget); d != "" {
				fatal(rt, "[%s] %s: ProcessBlock(%s) succeeded while every read of the tree node tables failed, and recorded something else than a run without the failure (A=with failing reads, B=fault-free):\n%s", k, label, tb.brief(), d)
			}
			return false
		}
		if d := diffDumps(pre, dumpTables(pathS, faultTables)); d != "" {
			fatal(rt, "[%s] %s: after a failed ProcessBlock(%s) (node reads failing: %v) part of the block is visible:\n%s", k, label, tb.brief(), err, d)
		}
		return true
	}

	// cancelAt: the context of one attempt is cancelled at its j-th observation. An attempt that reports success must have
	// recorded the whole block (exactly the fault-free result); one that fails must leave nothing behind. Returns false
	// when the block went in.
	cancelAt := func(j int, label string) bool {
		pre := dumpTables(pathS, faultTables)
		ctx := newScriptedCtx(j)
		err := processCtx(S, ctx, tb)
		rec.Class("fault_cancel_at_observation")
		if err == nil {
			got := dumpTables(pathS, "rht", faultTables)
			if d := diffDumps(got, twinAtTarget); d != "" {
				fatal(rt, "[%s] %s: ProcessBlock(%s) reported success although its context was cancelled, and the block is not recorded as in a run without the cancellation (A=after the call, B=fault-free):\n%s", k, label, tb.brief(), d)
			}
			if lp := lastProcessed(S); lp != tb.Num {
				fatal(rt, "[%s] %s: ProcessBlock(%s) reported success but the last processed block is %d", k, label, tb.brief(), lp)
			}
			return false
		}
		if d := diffDumps(pre, dumpTables(pathS, faultTables)); d != "" {
			fatal(rt, "[%s] %s: after a cancelled ProcessBlock(%s) (%v) part of the block is visible:\n%s", k, label, tb.brief(), err, d)
		}
		if lp := lastProcessed(S); lp != lastBefore {
			fatal(rt, "[%s] %s: last processed block moved %d -> %d although the block failed", k, label, lastBefore, lp)
		}
		return true
	}

	// commitFault: every statement of the block's transaction succeeds, the COMMIT itself fails (a deferred foreign key is
	// left dangling by a trigger on the block row; a full disk or an I/O error at commit time look the same to the node).
	// The attempt must fail and leave nothing behind.
	commitFault := func(label string) {
		pre := dumpTables(pathS, faultTables)
		inj.exec(`CREATE TABLE IF NOT EXISTS vf_parent (id INTEGER PRIMARY KEY)`)
		inj.exec(`CREATE TABLE IF NOT EXISTS vf_dangling (x INTEGER REFERENCES vf_parent(id) DEFERRABLE INITIALLY DEFERRED)`)
		inj.exec(`CREATE TRIGGER IF NOT EXISTS vf_commit AFTER INSERT ON block BEGIN INSERT INTO vf_dangling VALUES (424242); END`)
		err := S.process(tb)
		inj.exec(`DROP TRIGGER IF EXISTS vf_commit`)
		inj.exec(`DROP TABLE IF EXISTS vf_dangling`)
		inj.exec(`DROP TABLE IF EXISTS vf_parent`)
		if err == nil {
			fatal(rt, "INCONCLUSIVE: harness: the COMMIT of block %s did not fail although a deferred foreign key was left dangling", tb.brief())
		}
		if d := diffDumps(pre, dumpTables(pathS, faultTables)); d != "" {
			fatal(rt, "[%s] %s: after a ProcessBlock(%s) whose COMMIT failed (%v) part of the block is visible:\n%s", k, label, tb.brief(), err, d)
		}
		if lp := lastProcessed(S); lp != lastBefore {
			fatal(rt, "[%s] %s: last processed block moved %d -> %d although the block's COMMIT failed", k, label, lastBefore, lp)
		}
		rec.Class("fault_commit_fails")
	}

	inj.snapshotRHT()
	undo := func() {
		if err := S.reorg(tb.Num); err != nil {
			fatal(rt, "reorg: %v", err)
		}
		inj.restoreRHT()
	}
	leaves := treeLeaves(tb)
	nontrivialAny := false
	completed := false
	if mode < 3 {
		// enumerate: every statement of the target block's transaction fails in turn
		for kth := 1; kth <= total; kth++ {
			if rapid.IntRange(0, 15).Draw(rt, "restartBefore") == 0 {
				if err := S.restart(); err != nil {
					fatal(rt, "restart: %v", err)
				}
			}
			label := fmt.Sprintf("fault at statement %d/%d", kth, total)
			attempt(kth, label)
			retryAndCheck(label)
			undo()
			nt := leaves >= 2 && kth > 34
			rec.Case(nt, fmt.Sprintf("%sK%d", key, kth))
			nontrivialAny = nontrivialAny || nt
		}
		if leaves > 0 {
			label := "node tables unavailable after a restart"
			if nodeTableFault(label) {
				retryAndCheck(label)
			}
			undo()
			for _, restart := range []bool{false, true} {
				label = fmt.Sprintf("node reads failing (restart before: %v)", restart)
				if nodeReadFault(label, restart) {
					retryAndCheck(label)
				}
				undo()
			}
		}
		{
			label := "COMMIT of the block's transaction fails"
			commitFault(label)
			retryAndCheck(label)
			undo()
		}
		// cancellation points: count the observations of a clean attempt, then cancel at the first two, the last eight
		// and a generated sample of the others
		probe := newScriptedCtx(0)
		if err := processCtx(S, probe, tb); err != nil {
			fatal(rt, "[%s] store refused valid block %s under an observing context: %v", k, tb.brief(), err)
		}
		undo()
		nObs := probe.observations()
		points := map[int]bool{}
		for j := 1; j <= nObs+1; j++ {
			if j <= 2 || j >= nObs-6 || rapid.IntRange(0, nObs/10).Draw(rt, "cancelPointSampled") == 0 {
				points[j] = true
			}
		}
		for j := 1; j <= nObs+1; j++ {
			if !points[j] {
				continue
			}
			label := fmt.Sprintf("context cancelled at its observation %d of %d", j, nObs)
			if cancelAt(j, label) {
				retryAndCheck(label)
			}
			undo()
		}
		rec.ClassN("enumerated_cancellation_points", len(points))
		rec.Class("enumerated_histories")
		rec.ClassN("enumerated_faults", total)
	} else {
		// a sequence of 1-3 faults (storage statement, cancelled context, cancellation racing the call), then retry
		nf := rapid.IntRange(1, 3).Draw(rt, "nFaults")
		for i := 0; i < nf && !completed; i++ {
			switch rapid.IntRange(0, 7).Draw(rt, "faultKind") {
			case 7:
				commitFault(fmt.Sprintf("fault %d of %d in sequence, COMMIT fails", i+1, nf))
				key += "M,"
			case 6:
				if !cancelAt(rapid.IntRange(1, 200).Draw(rt, "cancelAtObservation"), fmt.Sprintf("fault %d of %d in sequence, context cancelled at a generated observation", i+1, nf)) {
					completed = true
				}
				key += "C,"
			case 5:
				if leaves > 0 {
					if !nodeReadFault(fmt.Sprintf("fault %d of %d in sequence, node reads failing", i+1, nf), rapid.Bool().Draw(rt, "restartBeforeReadFault")) {
						completed = true
					}
					key += "Q,"
				}
			case 4:
				if leaves > 0 {
					if !nodeTableFault(fmt.Sprintf("fault %d of %d in sequence, node tables unavailable", i+1, nf)) {
						completed = true
					}
					key += "N,"
				}
			case 0:
				ctx, cancel := context.WithCancel(bg)
				cancel()
				pre := dumpTables(pathS, faultTables)
				if err := processCtx(S, ctx, tb); err == nil {
					fatal(rt, "[%s] ProcessBlock with a cancelled context succeeded", k)
				}
				if d := diffDumps(pre, dumpTables(pathS, faultTables)); d != "" {
					fatal(rt, "[%s] cancelled ProcessBlock left part of the block behind:\n%s", k, d)
				}
				rec.Class("fault_cancelled_ctx")
			case 1:
				ctx, cancel := context.WithCancel(bg)
				d := time.Duration(rapid.IntRange(0, 400).Draw(rt, "cancelAfterMicros")) * time.Microsecond
				pre := dumpTables(pathS, faultTables)
				go func() { time.Sleep(d); cancel() }()
				err := processCtx(S, ctx, tb)
				cancel()
				post := dumpTables(pathS, faultTables)
				if err != nil {
					if df := diffDumps(pre, post); df != "" {
						fatal(rt, "[%s] ProcessBlock cancelled mid-way (%v) left part of the block behind:\n%s", k, err, df)
					}
				} else {
					// it completed before the cancellation landed: the block is in, the plan ends here
					completed = true
				}
				rec.Class("fault_cancel_race")
			default:
				kth := rapid.IntRange(1, total).Draw(rt, "kth")
				attempt(kth, fmt.Sprintf("fault %d of %d in sequence, statement %d/%d", i+1, nf, kth, total))
				nt := leaves >= 2 && kth > 34
				nontrivialAny = nontrivialAny || nt
				key += fmt.Sprintf("K%d,", kth)
				rec.Class("fault_statement_in_sequence")
			}
			if rapid.IntRange(0, 5).Draw(rt, "restartBetween") == 0 {
				if err := S.restart(); err != nil {
					fatal(rt, "restart: %v", err)
				}
				key += "R"
			}
		}
		rec.Case(nontrivialAny, key)
		rec.Class("sequence_histories")
	}
	// final: retry, remaining blocks, then every query / root / proof equals the fault-free twin
	if !completed {
		retryAndCheck("final retry")
	}
	for i := target + 1; i < n; i++ {
		if err := S.process(hist[i]); err != nil {
			fatal(rt, "[%s] after the faults, store refused valid block %s: %v", k, hist[i].brief(), err)
		}
		if err := T.process(hist[i]); err != nil {
			fatal(rt, "twin refused valid block %s: %v", hist[i].brief(), err)
		}
	}
	w := worldOf(k, hist)
	if d := diffDumps(dumpTables(pathS, "rht", faultTables), dumpTables(pathT, "rht", faultTables)); d != "" {
		fatal(rt, "[%s] after faults on block %s and the remaining blocks, tables differ from the fault-free run:\n%s", k, tb.brief(), d)
	}
	calls := buildBattery(rt, S.facade(), poolsOf(w, hist, nil), 24)
	ra, rb := runBattery(S.facade(), calls), runBattery(T.facade(), calls)
	if d, _ := compareBattery(calls, ra, rb, nil); d != "" {
		fatal(rt, "[%s] after faults on block %s and the remaining blocks, answers differ from the fault-free run:\n %s", k, tb.brief(), d)
	}
	if nontrivialAny && rec.WantSample() {
		rec.Sample(map[string]any{"store": k.String(), "history": briefs(hist), "target_block": tb.brief(), "rows_written_by_target_tx": total,
			"plan": map[bool]string{true: "every statement 1..total failed in turn (retry + reorg between)", false: "random fault sequence"}[mode < 3]})
	}
	rec.Class("store_" + k.String())
}

// scriptedCtx is a context that becomes cancelled at its k-th observation (call of Done or Err) by the code under test:
// a deterministic enumeration of "the caller gives up / the process is asked to stop at this point of ProcessBlock".
// Right after it fires it pauses for a moment, as a descheduled goroutine would, so that database/sql's watcher goroutine
// (which rolls an open transaction back when its context ends) gets to run before the observer continues.
type scriptedCtx struct {
	context.Context
	mu     sync.Mutex
	fireAt int // fires at this observation (1-based); 0 = never
	obs    int
	fired  bool
	ch     chan struct{}
}

func newScriptedCtx(fireAt int) *scriptedCtx {
	return &scriptedCtx{Context: context.Background(), fireAt: fireAt, ch: make(chan struct{})}
}

func (c *scriptedCtx) observe() {
	c.mu.Lock()
	c.obs++
	fire := !c.fired && c.fireAt > 0 && c.obs >= c.fireAt
	if fire {
		c.fired = true
		close(c.ch)
	}
	c.mu.Unlock()
	if fire {
		time.Sleep(time.Millisecond)
	}
}

func (c *scriptedCtx) Done() <-chan struct{} { c.observe(); return c.ch }

func (c *scriptedCtx) Err() error {
	c.observe()
	c.mu.Lock()
	defer c.mu.Unlock()
	if c.fired {
		return context.Canceled
	}
	return nil
}

func (c *scriptedCtx) observations() int { c.mu.Lock(); defer c.mu.Unlock(); return c.obs }

func lastProcessed(s *store) uint64 {
	var n uint64
	var err error
	switch s.kind {
	case kBridge:
		n, err = s.br.GetLastProcessedBlock(bg)
	case kL1Info:
		n, err = s.l1.GetLastProcessedBlock(bg)
	default:
		n, err = s.ger.GetLastProcessedBlock(bg)
	}
	if err != nil {
		return ^uint64(0)
	}
	return n
}

func processCtx(s *store, ctx context.Context, b blkSpec) error {
	sb := b.toSync(s.kind)
	switch s.kind {
	case kBridge:
		return s.br.VerifProcessBlock(ctx, sb)
	case kL1Info:
		return s.l1.VerifProcessBlock(ctx, sb)
	default:
		return s.ger.VerifProcessBlock(ctx, sb)
	}
}

func TestC07(t *testing.T) {
	rec := ev.For("C07", c07Rule)
	rec.Assume("SQLite's own crash atomicity (a process killed inside a transaction = rollback on next open) is trusted, not re-tested")
	rec.Assume("a DELETE that matches no row writes nothing and therefore cannot be failed")
	rapid.Check(t, func(rt *rapid.T) { c07Prop(rt, rec) })
}
