package harness

import (
	"errors"
	"fmt"
	"math/big"
	"reflect"
	"testing"

	"github.com/agglayer/aggkit/l1infotreesync"
	aggkitsync "github.com/agglayer/aggkit/sync"
	"github.com/ethereum/go-ethereum/common"
	"pgregory.net/rapid"

	"verifharness/ev"
)

// C14 — a syncer that detects an inconsistency fails stop.

const c14Rule = "case = (bridge or L1 info store, valid history, halting block [deposit-count gap forward/backward/duplicate | announced " +
	"root or leaf count mismatch], further blocks, reorg points in {far above tip, tip+1, halting block, tip, earlier, 0}); entry " +
	"points = every exported method of the facade whose last result is an error, enumerated by reflection; oracle = while halted " +
	"every entry point returns ErrInconsistentState with zero-valued data and no block is recorded; only a reorg that deletes >=1 " +
	"block clears it; non-trivial = halted after >=1 valid block and probed by >=1 reorg that removes nothing; distinct = hash of " +
	"(store, history shape, halting kind, reorg points)"

var c14Excluded = map[string]string{
	"GetLastReorgEvent": "reads the reorg detector's audit table, not the store (no detector is wired by the facade constructor)",
}

func blockCount(path string) int {
	d := rawDB(path)
	defer d.Close()
	var n int
	if err := d.QueryRow("SELECT COUNT(*) FROM block").Scan(&n); err != nil {
		panic(err)
	}
	return n
}

func c14Prop(rt *rapid.T, rec *ev.Recorder) {
	k := storeKind(rapid.IntRange(0, 1).Draw(rt, "store"))
	opts := genOpts{withV2: true, noDestroy: true}
	n0 := rapid.IntRange(0, 6).Draw(rt, "nValid")
	hist := genHistory(rt, k, nil, n0, opts)
	path, clean := tmpDB("c14")
	defer clean()
	S, err := openStore(k, path)
	if err != nil {
		fatal(rt, "open: %v", err)
	}
	defer func() { S.close() }()
	for _, b := range hist {
		if err := S.process(b); err != nil {
			fatal(rt, "store refused valid block %s: %v", b.brief(), err)
		}
	}
	w := worldOf(k, hist)
	// halting block
	haltNum := w.tip + uint64(rapid.IntRange(1, 3).Draw(rt, "haltGap"))
	hb := genBlock(rt, k, worldOf(k, hist), haltNum, opts)
	var haltKind string
	if k == kBridge {
		// the inconsistent deposit comes first, in the middle or last in the block (the block is cut there)
		at := rapid.IntRange(0, len(hb.Evs)).Draw(rt, "haltPos")
		expected := w.nextDC + uint32(countKind(hb.Evs[:at], "bridge"))
		wrong := expected
		switch haltKind = rapid.SampledFrom([]string{"gap-forward", "gap-backward", "duplicate"}).Draw(rt, "haltKind"); haltKind {
		case "gap-forward":
			wrong = expected + uint32(rapid.IntRange(1, 5).Draw(rt, "fwd"))
			if sp := rapid.SampledFrom([]uint32{0, 0, 1<<32 - 1, 1<<32 - 2, 1 << 31}).Draw(rt, "farAheadCount"); sp > expected {
				wrong = sp // a count far ahead, up to the largest the event field can carry
			}
		case "gap-backward":
			if expected >= 2 {
				wrong = expected - 2
			} else {
				wrong = expected + 1
				haltKind = "gap-forward"
			}
		case "duplicate":
			if expected >= 1 {
				wrong = expected - 1
			} else {
				wrong = 3
				haltKind = "gap-forward"
			}
		}
		d := genBridge(rt)
		d.BlockNum, d.BlockPos, d.DepositCount = haltNum, 1000, wrong
		hb.Evs = append(append([]evSpec{}, hb.Evs[:at]...), evSpec{Kind: "bridge", Bridge: &d})
	} else {
		cur := worldOf(k, hist)
		tmp := blkSpec{Num: haltNum, Hash: hb.Hash}
		// keep only info events of the drawn block, then a wrong announcement
		for _, e := range hb.Evs {
			if e.Info != nil {
				tmp.Evs = append(tmp.Evs, e)
			}
		}
		if len(cur.infoLeaves)+len(tmp.Evs) == 0 {
			// the announcement check needs a non-empty tree: add one leaf
			extra := genHistory(rt, k, hist, 1, genOpts{forceMulti: true, noDestroy: true})
			for _, e := range extra[0].Evs {
				if e.Info != nil {
					tmp.Evs = append(tmp.Evs, e)
				}
			}
			if len(tmp.Evs) == 0 {
				rt.Skip("no info leaf generated")
			}
		}
		cur.apply(tmp)
		root := cur.infoRoots[len(cur.infoRoots)-1]
		cnt := uint32(len(cur.infoLeaves))
		switch haltKind = rapid.SampledFrom([]string{"wrong-root", "wrong-count", "both-wrong"}).Draw(rt, "haltKind"); haltKind {
		case "wrong-root":
			root = genHash.Draw(rt, "wrongRoot")
		case "wrong-count":
			cnt += uint32(rapid.IntRange(1, 3).Draw(rt, "cntOff"))
		default:
			root = genHash.Draw(rt, "wrongRoot")
			cnt++
		}
		tmp.Evs = append(tmp.Evs, evSpec{Kind: "infoV2", InfoV2: &l1infotreesync.UpdateL1InfoTreeV2{CurrentL1InfoRoot: root, LeafCount: cnt, Blockhash: common.Hash{9}, MinTimestamp: 1}})
		hb = tmp
	}
	if rapid.IntRange(0, 2).Draw(rt, "restartBeforeTheInconsistentBlock") == 0 {
		// the inconsistency is the first thing a freshly started node sees (its tree cache is not built yet)
		if err := S.restart(); err != nil {
			fatal(rt, "restart: %v", err)
		}
	}
	nBefore := blockCount(path)
	err = S.process(hb)
	if !errors.Is(err, aggkitsync.ErrInconsistentState) {
		fatal(rt, "[%s] inconsistent block (%s) %s returned %v, want ErrInconsistentState", k, haltKind, hb.brief(), err)
	}
	halted := func() bool {
		if k == kBridge {
			return S.br.VerifHalted()
		}
		return S.l1.VerifHalted()
	}
	if !halted() {
		fatal(rt, "[%s] after the inconsistent block (%s) the syncer is not halted", k, haltKind)
	}
	names, skipped := queryMethodsEx(S.facade(), true, c14Excluded)
	rec.Set("entry_points_"+k.String(), names)
	rec.Set("not_entry_points_"+k.String(), skipped)
	p := poolsOf(w, hist, nil)
	checkHalted := func(when string) {
		calls := buildBatteryFor(rt, S.facade(), p, 3, names)
		for _, c := range calls {
			m := reflect.ValueOf(S.facade()).MethodByName(c.Method)
			var outs []reflect.Value
			func() {
				defer func() {
					if r := recover(); r != nil {
						fatal(rt, "[%s] %s: %s panicked while halted: %v", k, when, c.Desc, r)
					}
				}()
				outs = m.Call(c.Args)
			}()
			e, _ := outs[len(outs)-1].Interface().(error)
			if !errors.Is(e, aggkitsync.ErrInconsistentState) {
				fatal(rt, "[%s] %s: %s returned error %v while the syncer is halted (%s); want ErrInconsistentState", k, when, c.Desc, e, haltKind)
			}
			for i := 0; i < len(outs)-1; i++ {
				if !outs[i].IsZero() {
					fatal(rt, "[%s] %s: %s returned data (%v) together with the inconsistency error", k, when, c.Desc, outs[i].Interface())
				}
			}
		}
		rec.ClassN("halted_queries_checked", len(calls))
		// stops advancing
		nb := genBlock(rt, k, worldOf(k, hist), haltNum+1+uint64(rapid.IntRange(0, 2).Draw(rt, "laterGap")), opts)
		if err := S.process(nb); !errors.Is(err, aggkitsync.ErrInconsistentState) {
			fatal(rt, "[%s] %s: ProcessBlock while halted returned %v", k, when, err)
		}
		if n := blockCount(path); n != nBefore {
			fatal(rt, "[%s] %s: block table grew from %d to %d while halted", k, when, nBefore, n)
		}
	}
	checkHalted("right after halting")
	key := fmt.Sprintf("%s|%v|%s|", k, briefs(hist), haltKind)
	emptyReorgs := 0
	// reorg points
	nR := rapid.IntRange(1, 4).Draw(rt, "nReorgs")
	surv := hist
	cleared := false
	for i := 0; i < nR && !cleared; i++ {
		tip := uint64(0)
		if len(surv) > 0 {
			tip = surv[len(surv)-1].Num
		}
		var pt uint64
		switch rapid.IntRange(0, 5).Draw(rt, "reorgKind") {
		case 0:
			pt = tip + 100
		case 1:
			pt = tip + 1
		case 2:
			pt = haltNum
		case 3:
			pt = tip
		case 4:
			pt = 0
		default:
			if len(surv) > 0 {
				pt = surv[rapid.IntRange(0, len(surv)-1).Draw(rt, "reorgAt")].Num
			}
		}
		removes := 0
		for _, b := range surv {
			if b.Num >= pt {
				removes++
			}
		}
		handled := false
		if removes > 0 && rapid.IntRange(0, 2).Draw(rt, "faultDuringReorg") == 0 {
			// the reorg's own transaction fails (each row-writing statement in turn): a reorg that failed has removed nothing,
			// so it must not clear the condition; the driver retries it
			inj := newFaultInjector(path)
			for kth := 1; kth <= 40 && !handled; kth++ {
				inj.armAbort(kth)
				ferr := S.reorg(pt)
				inj.disarm()
				if ferr == nil {
					handled = true
					break
				}
				if !halted() {
					fatal(rt, "[%s] Reorg(%d) failed (statement writing row %d: %v) and removed nothing, but the halted state is cleared", k, pt, kth, ferr)
				}
				if kth == 1 {
					checkHalted(fmt.Sprintf("after a failed Reorg(%d)", pt))
				}
				rec.Class("failed_reorgs_while_halted")
			}
			inj.exec("DROP TABLE vf_cnt")
			inj.close()
			key += "F"
		}
		if !handled {
			if err := S.reorg(pt); err != nil {
				fatal(rt, "Reorg(%d): %v", pt, err)
			}
		}
		key += fmt.Sprintf("reorg%d(-%d)|", pt, removes)
		if removes == 0 {
			emptyReorgs++
			if !halted() {
				fatal(rt, "[%s] Reorg(%d) removed no processed block (tip %d) but cleared the halted state", k, pt, tip)
			}
			checkHalted(fmt.Sprintf("after Reorg(%d) that removed nothing", pt))
			continue
		}
		var kept []blkSpec
		for _, b := range surv {
			if b.Num < pt {
				kept = append(kept, b)
			}
		}
		surv = kept
		nBefore = blockCount(path)
		if halted() {
			fatal(rt, "[%s] Reorg(%d) removed %d processed blocks but the syncer is still halted", k, pt, removes)
		}
		cleared = true
		// answers again, and advances again
		calls := buildBatteryFor(rt, S.facade(), poolsOf(worldOf(k, surv), surv, nil), 2, names)
		for _, c := range calls {
			if c.Method == "GetContractDepositCount" {
				continue // needs the contract binding, which the facade constructor does not wire
			}
			_, e := runCall(S.facade(), c)
			if errors.Is(e, aggkitsync.ErrInconsistentState) {
				fatal(rt, "[%s] after Reorg(%d) cleared the halt, %s still returns ErrInconsistentState", k, pt, c.Desc)
			}
		}
		if k == kBridge && rapid.Bool().Draw(rt, "secondInconsistencyAfterTheHaltWasCleared") {
			// the chain the node follows is inconsistent again: the next deposit is ahead of the stored count - by 1..6, or by
			// exactly as many deposits as the clearing reorg removed (the gap the tree's cached index used to hide, F11). The
			// node must notice this one like the first.
			before, after := worldOf(k, hist), worldOf(k, surv)
			removed := before.nextDC - after.nextDC
			gap := uint32(rapid.IntRange(1, 6).Draw(rt, "secondGap"))
			if removed > 0 && rapid.Bool().Draw(rt, "secondGapAsLargeAsWhatTheReorgRemoved") {
				gap = removed
			}
			wrong := after.nextDC + gap
			if after.nextDC > 0 {
				// ... or behind it: 0 again, or the count of the last stored deposit
				switch rapid.IntRange(0, 3).Draw(rt, "secondBackwards") {
				case 0:
					wrong = 0
				case 1:
					wrong = after.nextDC - 1
				}
			}
			tip := haltNum
			if len(surv) > 0 && surv[len(surv)-1].Num >= tip {
				tip = surv[len(surv)-1].Num
			}
			d := genBridge(rt)
			d.BlockNum, d.BlockPos, d.DepositCount = tip+1, 0, wrong
			bad := blkSpec{Num: tip + 1, Hash: common.BigToHash(big.NewInt(int64(tip) + 7777)), Evs: []evSpec{{Kind: "bridge", Bridge: &d}}}
			if err := S.process(bad); !errors.Is(err, aggkitsync.ErrInconsistentState) {
				fatal(rt, "[%s] after the halt was cleared by Reorg(%d) (which removed %d deposits), a deposit with count %d arrives while the store holds %d (the halted block had %d valid deposits before its inconsistent one): ProcessBlock returned %v, want ErrInconsistentState", k, pt, removed, wrong, after.nextDC, countKind(hb.Evs, "bridge")-1, err)
			}
			if !halted() {
				fatal(rt, "[%s] a second inconsistency (deposit count %d, expected %d) was reported but the syncer is not halted", k, wrong, after.nextDC)
			}
			rec.Class("second_inconsistency_after_a_cleared_halt")
			if wrong < after.nextDC {
				rec.Class("second_inconsistency_is_a_count_that_goes_backwards")
			} else if gap == removed {
				rec.Class("second_gap_as_large_as_what_the_clearing_reorg_removed")
			}
			break
		}
		for _, b := range genHistory(rt, k, surv, 2, opts) {
			if err := S.process(b); err != nil {
				fatal(rt, "[%s] after the halt was cleared by Reorg(%d), valid block %s is refused: %v", k, pt, b.brief(), err)
			}
		}
	}
	nt := n0 >= 1 && emptyReorgs >= 1
	rec.Case(nt, key)
	rec.Class("store_" + k.String())
	rec.Class("halt_" + haltKind)
	if cleared {
		rec.Class("cleared_by_reorg")
	}
	if nt && rec.WantSample() {
		rec.Sample(map[string]any{"store": k.String(), "valid_history": briefs(hist), "halting_block": hb.brief(), "halt_kind": haltKind, "steps": key})
	}
}

func TestC14(t *testing.T) {
	rec := ev.For("C14", c14Rule)
	rec.Set("excluded_by_name", c14Excluded)
	rapid.Check(t, func(rt *rapid.T) { c14Prop(rt, rec) })
}
