package fakechain

import (
	"testing"

	aggkittypes "github.com/agglayer/aggkit/types"
)

var _ aggkittypes.EthClienter = (*Chain)(nil)

func TestIface(t *testing.T) {}
