// Package fakechain is a deterministic scripted EVM chain that implements the client interfaces aggkit declares
// (types.BaseEthereumClienter and types.RPCClienter), so that aggkit's real downloader, driver, reorg detector and syncer
// constructors run on it. Blocks are real types.Header values linked by parent hash; a fork changes the hashes.
package fakechain

import (
	"context"
	"encoding/json"
	"errors"
	"fmt"
	"math/big"
	"sync"

	"github.com/ethereum/go-ethereum"
	"github.com/ethereum/go-ethereum/common"
	"github.com/ethereum/go-ethereum/core/types"
)

// Call describes one RPC made by the node; it is handed to the hook before the call is served.
type Call struct {
	Method string // HeaderByNumber, FilterLogs, BlockByNumber, CallContract, ChainID, debug_traceTransaction ...
	Tag    string // for HeaderByNumber/BlockByNumber: "latest", "safe", "finalized", "pending" or "" for a number
	Num    uint64 // block number (when Tag == "")
	From   uint64 // FilterLogs range
	To     uint64
	Seq    int         // ordinal of this call among calls of the same Method
	Tx     common.Hash // debug_traceTransaction: the transaction
}

type Chain struct {
	mu        sync.Mutex
	headers   []*types.Header        // canonical chain, index = number
	logs      map[uint64][]types.Log // canonical logs per block number
	traces    map[common.Hash]json.RawMessage
	latest    uint64 // visible tip
	safe      uint64
	finalized uint64
	forkID    uint64
	counts    map[string]int
	// Hook is called (chain locked) before every RPC is served; it may mutate the chain through the *Locked methods
	// and may return an error, which is then the RPC's result (fault injection).
	Hook func(c *Chain, call Call) error
	// CallHandler, when set, answers eth_call (chain locked; the state is that of the visible tip).
	CallHandler func(c *Chain, call ethereum.CallMsg) ([]byte, error)
	// MaxFinalized is the highest finalized pointer ever reported to the node.
	MaxFinalizedReported uint64
	History              []Call // every RPC served, in order (bounded)
}

func New() *Chain {
	c := &Chain{logs: map[uint64][]types.Log{}, traces: map[common.Hash]json.RawMessage{}, counts: map[string]int{}}
	c.headers = []*types.Header{{Number: big.NewInt(0), Time: 1000, Extra: []byte("genesis"), Difficulty: big.NewInt(0)}}
	return c
}

func (c *Chain) Lock()   { c.mu.Lock() }
func (c *Chain) Unlock() { c.mu.Unlock() }

// ---- mutation (call with the chain locked, e.g. from the hook, or through the exported wrappers) ----

// ExtendLocked appends one block with the given logs (Address/Topics/Data set by the caller) and returns its number.
func (c *Chain) ExtendLocked(logs []types.Log) uint64 {
	parent := c.headers[len(c.headers)-1]
	n := uint64(len(c.headers))
	h := &types.Header{ParentHash: parent.Hash(), Number: new(big.Int).SetUint64(n), Time: parent.Time + 12,
		Extra: []byte(fmt.Sprintf("fork%d", c.forkID)), Difficulty: big.NewInt(0)}
	c.headers = append(c.headers, h)
	c.setLogsLocked(n, logs)
	return n
}

func (c *Chain) setLogsLocked(n uint64, logs []types.Log) {
	h := c.headers[n]
	out := make([]types.Log, len(logs))
	for i, l := range logs {
		l.BlockNumber = n
		if !(l.Removed && l.BlockHash != (common.Hash{})) {
			// a removed log may keep the hash of the orphaned block it came from
			l.BlockHash = h.Hash()
		}
		if l.TxHash == (common.Hash{}) {
			// logs come in pairs from one transaction (a transaction may emit several watched logs); the transaction index is
			// deliberately not the log index
			tx := uint64(i / 2)
			l.TxHash = common.BigToHash(new(big.Int).SetUint64(n<<16 | tx<<4 | c.forkID&0xf))
			l.TxIndex = uint(tx)*3 + 1
		}
		if l.Index == 0 {
			l.Index = uint(i)
		}
		out[i] = l
	}
	c.logs[n] = out
}

// ForkLocked replaces blocks [at, ...] by a new suffix (one log slice per new block). Pointers above the new tip are clamped.
func (c *Chain) ForkLocked(at uint64, suffix [][]types.Log) {
	if at == 0 || at > uint64(len(c.headers)) {
		panic("fakechain: bad fork point")
	}
	for n := at; n < uint64(len(c.headers)); n++ {
		delete(c.logs, n)
	}
	c.headers = c.headers[:at]
	c.forkID++
	for _, l := range suffix {
		c.ExtendLocked(l)
	}
	tip := uint64(len(c.headers) - 1)
	if c.latest > tip {
		c.latest = tip
	}
	if c.safe > c.latest {
		c.safe = c.latest
	}
	if c.finalized > c.latest {
		c.finalized = c.latest
	}
}

// SetPointersLocked sets the visible tip and the safe / finalized pointers (clamped to the existing blocks).
func (c *Chain) SetPointersLocked(latest, safe, finalized uint64) {
	tip := uint64(len(c.headers) - 1)
	if latest > tip {
		latest = tip
	}
	if safe > latest {
		safe = latest
	}
	if finalized > safe {
		finalized = safe
	}
	c.latest, c.safe, c.finalized = latest, safe, finalized
}

func (c *Chain) Extend(logs []types.Log) uint64 {
	c.mu.Lock()
	defer c.mu.Unlock()
	return c.ExtendLocked(logs)
}
func (c *Chain) Fork(at uint64, suffix [][]types.Log) {
	c.mu.Lock()
	defer c.mu.Unlock()
	c.ForkLocked(at, suffix)
}
func (c *Chain) SetPointers(latest, safe, finalized uint64) {
	c.mu.Lock()
	defer c.mu.Unlock()
	c.SetPointersLocked(latest, safe, finalized)
}
func (c *Chain) SetTrace(tx common.Hash, callFrame any) {
	b, err := json.Marshal(callFrame)
	if err != nil {
		panic(err)
	}
	c.mu.Lock()
	c.traces[tx] = b
	c.mu.Unlock()
}

// SetTraceLocked is SetTrace for callers that hold the chain's lock (the RPC hook).
func (c *Chain) SetTraceLocked(tx common.Hash, callFrame any) {
	b, err := json.Marshal(callFrame)
	if err != nil {
		panic(err)
	}
	c.traces[tx] = b
}

// ---- inspection ----

func (c *Chain) TipLocked() uint64       { return uint64(len(c.headers) - 1) }
func (c *Chain) LatestLocked() uint64    { return c.latest }
func (c *Chain) FinalizedLocked() uint64 { return c.finalized }
func (c *Chain) SafeLocked() uint64      { return c.safe }
func (c *Chain) Tip() uint64             { c.mu.Lock(); defer c.mu.Unlock(); return uint64(len(c.headers) - 1) }
func (c *Chain) Latest() uint64          { c.mu.Lock(); defer c.mu.Unlock(); return c.latest }
func (c *Chain) Finalized() uint64       { c.mu.Lock(); defer c.mu.Unlock(); return c.finalized }
func (c *Chain) Count(method string) int { c.mu.Lock(); defer c.mu.Unlock(); return c.counts[method] }
func (c *Chain) HashOf(n uint64) common.Hash {
	c.mu.Lock()
	defer c.mu.Unlock()
	return c.headers[n].Hash()
}
func (c *Chain) HeaderLocked(n uint64) *types.Header { return c.headers[n] }
func (c *Chain) LogsLocked(n uint64) []types.Log     { return c.logs[n] }
func (c *Chain) LogsOf(n uint64) []types.Log {
	c.mu.Lock()
	defer c.mu.Unlock()
	return append([]types.Log{}, c.logs[n]...)
}

// ---- RPC surface ----

func (c *Chain) enter(call Call) error {
	call.Seq = c.counts[call.Method]
	c.counts[call.Method]++
	if len(c.History) < 100000 {
		c.History = append(c.History, call)
	}
	if c.Hook != nil {
		return c.Hook(c, call)
	}
	return nil
}

func tagOf(n *big.Int) (string, uint64) {
	if n == nil {
		return "latest", 0
	}
	if n.Sign() >= 0 {
		return "", n.Uint64()
	}
	switch n.Int64() {
	case -1:
		return "pending", 0
	case -2:
		return "latest", 0
	case -3:
		return "finalized", 0
	case -4:
		return "safe", 0
	}
	return "latest", 0
}

func (c *Chain) resolveLocked(tag string, num uint64) (*types.Header, error) {
	switch tag {
	case "latest", "pending":
		return c.headers[c.latest], nil
	case "safe":
		return c.headers[c.safe], nil
	case "finalized":
		if c.finalized > c.MaxFinalizedReported {
			c.MaxFinalizedReported = c.finalized
		}
		return c.headers[c.finalized], nil
	}
	if num > c.latest {
		return nil, ethereum.NotFound
	}
	return c.headers[num], nil
}

func (c *Chain) HeaderByNumber(ctx context.Context, number *big.Int) (*types.Header, error) {
	if err := ctx.Err(); err != nil {
		return nil, err
	}
	tag, num := tagOf(number)
	c.mu.Lock()
	defer c.mu.Unlock()
	if err := c.enter(Call{Method: "HeaderByNumber", Tag: tag, Num: num}); err != nil {
		return nil, err
	}
	h, err := c.resolveLocked(tag, num)
	if err != nil {
		return nil, err
	}
	return types.CopyHeader(h), nil
}

func (c *Chain) BlockByNumber(ctx context.Context, number *big.Int) (*types.Block, error) {
	tag, num := tagOf(number)
	c.mu.Lock()
	defer c.mu.Unlock()
	if err := c.enter(Call{Method: "BlockByNumber", Tag: tag, Num: num}); err != nil {
		return nil, err
	}
	h, err := c.resolveLocked(tag, num)
	if err != nil {
		return nil, err
	}
	return types.NewBlockWithHeader(h), nil
}

func (c *Chain) HeaderByHash(ctx context.Context, hash common.Hash) (*types.Header, error) {
	c.mu.Lock()
	defer c.mu.Unlock()
	if err := c.enter(Call{Method: "HeaderByHash"}); err != nil {
		return nil, err
	}
	for i := uint64(0); i <= c.latest; i++ {
		if c.headers[i].Hash() == hash {
			return types.CopyHeader(c.headers[i]), nil
		}
	}
	return nil, ethereum.NotFound
}

func (c *Chain) BlockByHash(ctx context.Context, hash common.Hash) (*types.Block, error) {
	h, err := c.HeaderByHash(ctx, hash)
	if err != nil {
		return nil, err
	}
	return types.NewBlockWithHeader(h), nil
}

func (c *Chain) BlockNumber(ctx context.Context) (uint64, error) {
	c.mu.Lock()
	defer c.mu.Unlock()
	if err := c.enter(Call{Method: "BlockNumber"}); err != nil {
		return 0, err
	}
	return c.latest, nil
}

func (c *Chain) ChainID(ctx context.Context) (*big.Int, error) {
	c.mu.Lock()
	defer c.mu.Unlock()
	if err := c.enter(Call{Method: "ChainID"}); err != nil {
		return nil, err
	}
	return big.NewInt(1337), nil
}

// FilterLogs behaves like a real node: honours the block range (clamped to the visible tip), the address filter and the
// topic filter; logs of the canonical chain at the time of the call, in (block, index) order.
func (c *Chain) FilterLogs(ctx context.Context, q ethereum.FilterQuery) ([]types.Log, error) {
	if err := ctx.Err(); err != nil {
		return nil, err
	}
	c.mu.Lock()
	defer c.mu.Unlock()
	var from, to uint64
	if q.FromBlock != nil {
		from = q.FromBlock.Uint64()
	}
	to = c.latest
	if q.ToBlock != nil && q.ToBlock.Sign() >= 0 {
		to = q.ToBlock.Uint64()
	}
	if err := c.enter(Call{Method: "FilterLogs", From: from, To: to}); err != nil {
		return nil, err
	}
	if to > c.latest {
		to = c.latest
	}
	var out []types.Log
	for n := from; n <= to; n++ {
		for _, l := range c.logs[n] {
			if len(q.Addresses) > 0 {
				ok := false
				for _, a := range q.Addresses {
					if a == l.Address {
						ok = true
					}
				}
				if !ok {
					continue
				}
			}
			if len(q.Topics) > 0 && len(q.Topics[0]) > 0 {
				ok := false
				for _, t := range q.Topics[0] {
					if len(l.Topics) > 0 && l.Topics[0] == t {
						ok = true
					}
				}
				if !ok {
					continue
				}
			}
			cp := l
			cp.Topics = append([]common.Hash{}, l.Topics...)
			cp.Data = append([]byte{}, l.Data...)
			out = append(out, cp)
		}
	}
	return out, nil
}

func (c *Chain) CallContract(ctx context.Context, call ethereum.CallMsg, blockNumber *big.Int) ([]byte, error) {
	c.mu.Lock()
	defer c.mu.Unlock()
	if err := c.enter(Call{Method: "CallContract"}); err != nil {
		return nil, err
	}
	if c.CallHandler != nil {
		return c.CallHandler(c, call)
	}
	return make([]byte, 32), nil // ABI-encoded zero (uint / address / bytes32)
}

func (c *Chain) CodeAt(ctx context.Context, contract common.Address, blockNumber *big.Int) ([]byte, error) {
	return []byte{0x60}, nil
}

// Call implements types.RPCClienter (debug_traceTransaction answered from the registered traces).
func (c *Chain) Call(result any, method string, args ...any) error {
	c.mu.Lock()
	defer c.mu.Unlock()
	call := Call{Method: method}
	if len(args) > 0 {
		if h, ok := args[0].(common.Hash); ok {
			call.Tx = h
		}
	}
	if err := c.enter(call); err != nil {
		return err
	}
	if method != "debug_traceTransaction" || len(args) == 0 {
		return fmt.Errorf("fakechain: unsupported rpc %s", method)
	}
	tx, ok := args[0].(common.Hash)
	if !ok {
		return fmt.Errorf("fakechain: bad tx hash argument %T", args[0])
	}
	raw, ok := c.traces[tx]
	if !ok {
		return fmt.Errorf("fakechain: no trace for %s", tx)
	}
	return json.Unmarshal(raw, result)
}

var errUnsupported = errors.New("fakechain: unsupported")

func (c *Chain) SubscribeFilterLogs(context.Context, ethereum.FilterQuery, chan<- types.Log) (ethereum.Subscription, error) {
	return nil, errUnsupported
}
func (c *Chain) SubscribeNewHead(context.Context, chan<- *types.Header) (ethereum.Subscription, error) {
	return nil, errUnsupported
}
func (c *Chain) TransactionCount(context.Context, common.Hash) (uint, error) {
	return 0, errUnsupported
}
func (c *Chain) TransactionInBlock(context.Context, common.Hash, uint) (*types.Transaction, error) {
	return nil, errUnsupported
}
func (c *Chain) PendingCodeAt(context.Context, common.Address) ([]byte, error) {
	return []byte{0x60}, nil
}
func (c *Chain) PendingNonceAt(context.Context, common.Address) (uint64, error) { return 0, nil }
func (c *Chain) SuggestGasPrice(context.Context) (*big.Int, error)              { return big.NewInt(1), nil }
func (c *Chain) SuggestGasTipCap(context.Context) (*big.Int, error)             { return big.NewInt(1), nil }
func (c *Chain) EstimateGas(context.Context, ethereum.CallMsg) (uint64, error)  { return 21000, nil }
func (c *Chain) SendTransaction(context.Context, *types.Transaction) error      { return errUnsupported }

// HeaderTime returns the timestamp of block n.
func (c *Chain) HeaderTime(n uint64) uint64 {
	c.mu.Lock()
	defer c.mu.Unlock()
	return c.headers[n].Time
}

// Snap is a saved canonical chain (headers, logs, pointers).
type Snap struct {
	headers                 []*types.Header
	logs                    map[uint64][]types.Log
	latest, safe, finalized uint64
}

// Snapshot saves the canonical chain as it is now; Restore makes it canonical again (the chain "switches back" to
// exactly those blocks, same hashes).
func (c *Chain) Snapshot() *Snap {
	c.mu.Lock()
	defer c.mu.Unlock()
	s := &Snap{headers: append([]*types.Header{}, c.headers...), logs: map[uint64][]types.Log{}, latest: c.latest, safe: c.safe, finalized: c.finalized}
	for n, l := range c.logs {
		s.logs[n] = append([]types.Log{}, l...)
	}
	return s
}

func (c *Chain) Restore(s *Snap) {
	c.mu.Lock()
	defer c.mu.Unlock()
	c.headers = append([]*types.Header{}, s.headers...)
	c.logs = map[uint64][]types.Log{}
	for n, l := range s.logs {
		c.logs[n] = append([]types.Log{}, l...)
	}
	c.latest, c.safe, c.finalized = s.latest, s.safe, s.finalized
	c.forkID++
}
