package harness

import (
	"fmt"
	"math/bits"
	"testing"

	"github.com/agglayer/aggkit/bridgesync"
	"github.com/agglayer/aggkit/sync"
	"github.com/ethereum/go-ethereum/common"
	"pgregory.net/rapid"

	"verifharness/ev"
	"verifharness/ref"
)

// C01 — synced exit-tree root equals the bridge contract's root at every deposit.

const c01Rule = "case = (optional synthetic frontier at leaf index N-1, deposit sequence with generated field values, partition into " +
	"blocks with gaps and empty blocks, restart points) fed to the real bridge processor; oracle = reference deposit-contract " +
	"frontier (DepositContractBase algorithm) and getLeafValue formula, themselves tied to the real contract in the EVM leg; " +
	"non-trivial = >=2 deposits and (a block with >=2 deposits | restart with deposits on both sides | carry across 2^k, k>6 | " +
	"synthetic pre-state | extreme field value); distinct = hash of (pre-state index, per-block deposit counts, restarts, field classes)"

type c01Pre struct {
	Idx   uint32 // index of the last leaf present in the pre-state
	Front *ref.Frontier
	Root  common.Hash
	nodes [][3]common.Hash // hash,left,right
}

// c01MakePre builds a consistent synthetic tree whose last leaf has index idx: the 32 path nodes with generated
// left-subtree hashes, and the equivalent deposit-contract frontier.
func c01MakePre(rt *rapid.T, idx uint32) *c01Pre {
	leaf := genHash.Draw(rt, "preLeaf")
	p := &c01Pre{Idx: idx, Front: &ref.Frontier{Count: uint64(idx) + 1}}
	cur := leaf
	t := bits.TrailingZeros32(^idx) // number of trailing one bits of idx
	for h := 0; h < 32; h++ {
		if h == t {
			p.Front.Branch[h] = cur // complete subtree ending at idx
		}
		var l, r common.Hash
		if idx&(1<<h) != 0 {
			l = genHash.Draw(rt, "preLeft")
			r = cur
			if h > t {
				p.Front.Branch[h] = l
			}
		} else {
			l = cur
			r = ref.Zero[h]
		}
		cur = ref.H2(l, r)
		p.nodes = append(p.nodes, [3]common.Hash{cur, l, r})
	}
	p.Root = cur
	if p.Front.Root() != cur {
		panic(fmt.Sprintf("harness bug: synthetic pre-state inconsistent for idx %d", idx))
	}
	return p
}

func (p *c01Pre) write(path string, blockNum uint64) error {
	d := rawDB(path)
	defer d.Close()
	if _, err := d.Exec(`INSERT INTO block (num, hash) VALUES (?, ?)`, blockNum, common.Hash{1}.String()); err != nil {
		return err
	}
	if _, err := d.Exec(`INSERT INTO root (hash, position, block_num, block_position) VALUES (?,?,?,?)`, p.Root.Hex(), p.Idx, blockNum, 0); err != nil {
		return err
	}
	for _, n := range p.nodes {
		if _, err := d.Exec(`INSERT OR IGNORE INTO rht (hash, left, right) VALUES (?,?,?)`, n[0].Hex(), n[1].Hex(), n[2].Hex()); err != nil {
			return err
		}
	}
	return nil
}

type c01Block struct {
	Num     uint64
	Restart bool // restart the node before this block
	Deps    []bridgesync.Bridge
}

// c01GenPreIdx draws the index of the pre-state's last leaf; total deposits will be appended after it and the last
// appended index must stay <= 2^32-2 (the contract's _MAX_DEPOSIT_COUNT is 2^32-1 leaves).
func c01GenPreIdx(rt *rapid.T, total int) uint32 {
	idx := c01GenPreIdx0(rt, total)
	if max := uint64(1<<32-2) - uint64(total); uint64(idx) > max {
		idx = uint32(max)
	}
	return idx
}

func c01GenPreIdx0(rt *rapid.T, total int) uint32 {
	switch rapid.IntRange(0, 3).Draw(rt, "preKind") {
	case 0:
		k := rapid.IntRange(7, 31).Draw(rt, "k")
		n := uint64(1)<<k + uint64(rapid.IntRange(-1, 1).Draw(rt, "dk")) // N in {2^k-1,2^k,2^k+1}
		return uint32(n - 1)
	case 1:
		return uint32(uint64(1<<32-2) - uint64(total) - uint64(rapid.IntRange(0, 3).Draw(rt, "nearMax"))) // the appended deposits end at the top of the index space
	case 2:
		// just below a carry boundary so that the appended deposits cross it
		k := rapid.IntRange(7, 31).Draw(rt, "k")
		return uint32(uint64(1)<<k - 1 - uint64(rapid.IntRange(1, 5).Draw(rt, "below")))
	default:
		return rapid.Uint32Range(64, 1<<32-200).Draw(rt, "preIdx")
	}
}

func c01Prop(rt *rapid.T, rec *ev.Recorder, maxDeps int) {
	nBlocks := rapid.IntRange(1, 12).Draw(rt, "nBlocks")
	var blocks []c01Block
	var allDeps []bridgesync.Bridge
	num := uint64(1)
	total := 0
	for i := 0; i < nBlocks; i++ {
		num += uint64(rapid.IntRange(1, 3).Draw(rt, "gap"))
		b := c01Block{Num: num, Restart: rapid.IntRange(0, 5).Draw(rt, "restart") == 0}
		n := rapid.SampledFrom([]int{0, 0, 1, 1, 2, 3, 6}).Draw(rt, "nDeps")
		if total+n > maxDeps {
			n = 0
		}
		pos := uint64(0)
		for j := 0; j < n; j++ {
			d := genBridgeOrRepeat(rt, allDeps)
			allDeps = append(allDeps, d)
			d.BlockNum, d.BlockPos = num, pos
			d.BlockTimestamp = num * 12
			pos += uint64(rapid.IntRange(1, 3).Draw(rt, "posGap"))
			b.Deps = append(b.Deps, d)
		}
		total += n
		blocks = append(blocks, b)
	}
	if r := rapid.IntRange(0, 149).Draw(rt, "roundNumberOfDeposits"); r == 33 || r == 77 || r == 120 {
		// the chain holds exactly 1000 or 2000 deposits (or one more / less): listings that are read in pages or chunks meet
		// a full last page
		target := rapid.SampledFrom([]int{1000, 1000, 2000, 999, 1001}).Draw(rt, "target")
		for total < target {
			num += uint64(rapid.IntRange(1, 3).Draw(rt, "gap"))
			b := c01Block{Num: num, Restart: rapid.IntRange(0, 9).Draw(rt, "restart") == 0}
			n := target - total
			if n > 300 {
				n = rapid.IntRange(100, 300).Draw(rt, "bulk")
			}
			for j := 0; j < n; j++ {
				d := genBridgeOrRepeat(rt, allDeps)
				if len(d.Metadata) > 64 {
					d.Metadata = d.Metadata[:64]
				}
				allDeps = append(allDeps, d)
				d.BlockNum, d.BlockPos, d.BlockTimestamp = num, uint64(j), num*12
				b.Deps = append(b.Deps, d)
			}
			total += n
			blocks = append(blocks, b)
		}
		rec.Class("histories_with_a_round_number_of_deposits")
	}
	var pre *c01Pre
	next := uint32(0)
	if rapid.IntRange(0, 9).Draw(rt, "hasPre") < 4 {
		pre = c01MakePre(rt, c01GenPreIdx(rt, total))
		next = pre.Idx + 1
	}
	for i := range blocks {
		for j := range blocks[i].Deps {
			blocks[i].Deps[j].DepositCount = next
			next++
		}
	}

	path, cleanup := tmpDB("c01")
	defer cleanup()
	s, err := bridgesync.NewVerif(path, "c01", 0)
	if err != nil {
		fatal(rt, "NewVerif: %v", err)
	}
	defer func() { _ = s.VerifClose() }()
	front := &ref.Frontier{}
	if pre != nil {
		if err := pre.write(path, 1); err != nil {
			fatal(rt, "INCONCLUSIVE: pre-state write: %v", err)
		}
		front = pre.Front.Clone()
	}
	type exp struct {
		dep  bridgesync.Bridge
		root common.Hash
	}
	var want []exp
	// classification
	multi, restartSplit, carry, extreme := false, false, false, false
	depsBefore := 0
	key := fmt.Sprintf("pre=%v|", pre != nil)
	if pre != nil {
		key += fmt.Sprintf("%d|", pre.Idx)
	}
	for _, b := range blocks {
		if b.Restart {
			_ = s.VerifClose()
			s, err = bridgesync.NewVerif(path, "c01", 0)
			if err != nil {
				fatal(rt, "restart NewVerif: %v", err)
			}
			if depsBefore > 0 {
				restartSplit = true // provisional: needs deposits after as well
			}
			key += "R"
		}
		evs := make([]interface{}, 0, len(b.Deps))
		for i := range b.Deps {
			d := b.Deps[i]
			evs = append(evs, bridgesync.Event{Bridge: &d})
		}
		if err := s.VerifProcessBlock(bg, sync.Block{Num: b.Num, Hash: common.BigToHash(common.Big1), Events: evs}); err != nil {
			fatal(rt, "ProcessBlock(%d) with %d deposits starting at index %d failed: %v", b.Num, len(b.Deps), firstDC(b), err)
		}
		for _, d := range b.Deps {
			front.Add(refBridgeLeaf(d))
			want = append(want, exp{d, front.Root()})
			if d.DepositCount > 128 && d.DepositCount&(d.DepositCount-1) == 0 { // index 2^k: a carry into a new level
				carry = true
			}
			if isExtremeBridge(d) {
				extreme = true
			}
		}
		if len(b.Deps) >= 2 {
			multi = true
		}
		depsBefore += len(b.Deps)
		key += fmt.Sprintf("%d,", len(b.Deps))
	}
	if restartSplit {
		// deposits on both sides of some restart?
		restartSplit = false
		seen := 0
		for _, b := range blocks {
			if b.Restart && seen > 0 && seen < total {
				restartSplit = true
			}
			seen += len(b.Deps)
		}
	}
	// ---- oracle ----
	for _, w := range want {
		i := w.dep.DepositCount
		r, err := s.GetExitRootByIndex(bg, i)
		if err != nil {
			fatal(rt, "GetExitRootByIndex(%d): %v", i, err)
		}
		if r.Hash != w.root {
			fatal(rt, "exit root for deposit count %d: node %s, contract algorithm %s (pre=%v)", i, r.Hash, w.root, pre != nil)
		}
		if r.Index != i || r.BlockNum != w.dep.BlockNum {
			fatal(rt, "root row for deposit %d has index %d block %d (want block %d)", i, r.Index, r.BlockNum, w.dep.BlockNum)
		}
		rr, err := s.GetRootByLER(bg, w.root)
		if err != nil || rr == nil || rr.Index != i {
			fatal(rt, "GetRootByLER(root of deposit %d) = %v, %v", i, rr, err)
		}
	}
	if len(blocks) > 0 {
		from, to := blocks[0].Num, blocks[len(blocks)-1].Num
		got, err := s.GetBridges(bg, from, to)
		if err != nil {
			fatal(rt, "GetBridges(%d,%d): %v", from, to, err)
		}
		if len(got) != len(want) {
			fatal(rt, "GetBridges returned %d deposits, %d were processed", len(got), len(want))
		}
		for k := range want {
			if d := sameBridge(got[k], want[k].dep); d != "" {
				fatal(rt, "deposit %d read back differently: %s", want[k].dep.DepositCount, d)
			}
			g := got[k]
			if g.Hash() != refBridgeLeaf(want[k].dep) {
				fatal(rt, "leaf of deposit %d: node %s, contract getLeafValue %s", g.DepositCount, g.Hash(), refBridgeLeaf(want[k].dep))
			}
		}
	}
	nt := total >= 2 && (multi || restartSplit || carry || pre != nil || extreme)
	rec.Case(nt, key)
	if multi {
		rec.Class("block_with_2+_deposits")
	}
	if restartSplit {
		rec.Class("restart_between_deposits")
	}
	if carry {
		rec.Class("carry_across_2^k")
	}
	if pre != nil {
		rec.Class("synthetic_prestate")
	}
	if extreme {
		rec.Class("extreme_field")
	}
	if nt && rec.WantSample() && pre != nil && multi {
		var sb []string
		for _, b := range blocks {
			sb = append(sb, fmt.Sprintf("blk%d%s:%d", b.Num, map[bool]string{true: "(restart)", false: ""}[b.Restart], len(b.Deps)))
		}
		rec.Sample(map[string]any{"prestate_last_index": pre.Idx, "blocks(deposits)": sb, "first_new_index": pre.Idx + 1})
	}
}

func firstDC(b c01Block) int64 {
	if len(b.Deps) == 0 {
		return -1
	}
	return int64(b.Deps[0].DepositCount)
}

func TestC01(t *testing.T) {
	rec := ev.For("C01", c01Rule)
	maxDeps := 60
	if thorough() {
		maxDeps = 400
	}
	rapid.Check(t, func(rt *rapid.T) { c01Prop(rt, rec, maxDeps) })
}
