package harness

import (
	"fmt"
	"strings"
	"testing"

	"github.com/agglayer/aggkit/agglayer"
	agglayertypes "github.com/agglayer/aggkit/agglayer/types"
	"github.com/ethereum/go-ethereum/common"
	"pgregory.net/rapid"

	"verifharness/choose"
	"verifharness/ev"
)

// C02 — bridge exits settle exactly once through a gap-free certificate chain.
// (The walk engine below is shared with C03, C09, C10 and C13.)

const c02Rule = "case = schedule over {new L2 block (0-3 bridges, 0-2 claims with valid proofs), epoch tick, status tick, Agglayer moves " +
	"the oldest undecided certificate one state forward / settles it / puts it in error (header with or without prev exit root), " +
	"next Agglayer call fails without effect, new L1 block + finality advance} x configuration (retry immediately or at epoch, " +
	"max certificate size, last L2 block limit, require-one-bridge) driving the real aggsender (real PP flow, status checker, " +
	"SQLite storage, ECDSA signer) one loop iteration at a time against a model Agglayer; all schedules up to the depth bound " +
	"over a reduced alphabet are enumerated, longer ones are random walks; oracle = model Agglayer's checks on every submission " +
	"+ exactly-once/in-order content of the settled certificates; non-trivial = >=2 certificates settled or an " +
	"InError->retry->Settled path; distinct = hash of the action sequence with payloads abstracted to counts"

type walkCfg struct {
	node    nodeCfg
	reduced bool // enumerator alphabet
	steps   int
	weights []int // action alphabet with repetitions = weights (nil: default)
	viaGRPC bool  // the node talks to the model through aggkit's real gRPC client over a unix socket
	beyond  bool  // some claims are made against L1 info leaves above the finalized one (outside C09's precondition)
	rotate  bool  // the operator may stop the node, configure another aggsender key and start it again (C10)
}

type walkRes struct {
	w          *jWorld
	m          *mAgglayer
	node       *asNode
	trace      []string
	settled    int
	retryPath  bool
	submitted  int
	cleanup    func()
	storageDir string
	grpc       *grpcAgglayer
	rotations  int
}

// rotateKey: the operator stops the node, configures another aggsender key and starts a new instance on the same database
// (p != nil: the aggchain-prover flow is installed again). From then on certificates must carry the new signer's signature.
func (r *walkRes) rotateKey(ch choose.Chooser, cfg walkCfg, p *modelProver) string {
	keys := append([]string{verifPrivKey}, verifRotatedKeys...)
	nc := cfg.node
	nc.Key = choose.Pick(ch, keys, "newKey")
	var client agglayer.AgglayerClientInterface = r.m
	if r.grpc != nil {
		client = r.grpc
	}
	node, err := newASNode(r.w, client, r.storageDir, nc)
	if err != nil {
		return "rotate-failed(new)"
	}
	if p != nil {
		if err := installFEPFlow(node, r.w, p, nc); err != nil {
			return "rotate-failed(flow)"
		}
	}
	if err := node.startup(r.m, 4); err != nil {
		// start-up waits (or refuses) in this Agglayer state: the operator keeps the old instance; restarts as such are C13's
		return "rotate-refused"
	}
	r.m.mu.Lock()
	r.m.signer = addrOfKey(nc.key())
	r.m.mu.Unlock()
	r.node = node
	r.rotations++
	return "ROTATE(" + nc.key()[:4] + ")"
}

func (r *walkRes) key() string { return strings.Join(r.trace, " ") }

// initWorld: an L1 history with exit roots to claim against, finalized; an empty L2.
func initWorld(ch choose.Chooser) (*jWorld, error) {
	w, err := newJWorld()
	if err != nil {
		return nil, err
	}
	if err := w.addL1Block(ch, 2, 1, 1); err != nil {
		return nil, err
	}
	if err := w.addL1Block(ch, 1, 1, 1); err != nil {
		return nil, err
	}
	w.setFinalized(w.l1.Tip())
	return w, nil
}

func pickClaims(ch choose.Chooser, w *jWorld, n int, beyondFinalized bool) []claimSrc {
	maxInfo := w.finalizedInfoIdx()
	if beyondFinalized {
		maxInfo = len(w.infos) - 1
	}
	pool := w.claimable(maxInfo)
	var out []claimSrc
	used := map[string]bool{}
	for i := 0; i < n && len(pool) > 0; i++ {
		c := pool[ch.Int(0, len(pool)-1, "claimWhich")]
		k := fmt.Sprintf("%v/%d/%d", c.Mainnet, c.Rollup, c.Leaf)
		if used[k] {
			continue
		}
		used[k] = true
		out = append(out, c)
	}
	return out
}

// doAction applies one schedule action; returns its trace token.
func doAction(ch choose.Chooser, r *walkRes, act int) string {
	w, m, n := r.w, r.m, r.node
	canned := &choose.Replay{} // always the first alternative: payloads of the enumerator's canned actions
	switch act {
	case 0: // L2 block with generated events
		nb := choose.Pick(ch, []int{0, 1, 1, 2, 3}, "nBridges")
		nc := choose.Pick(ch, []int{0, 0, 1, 2}, "nClaims")
		cls := pickClaims(ch, w, nc, false)
		if err := w.addL2Block(ch, nb, cls); err != nil {
			panic(fmt.Sprintf("harness: L2 store refused a valid block: %v", err))
		}
		return fmt.Sprintf("L2(%db,%dc)", nb, len(cls))
	case 1:
		before := len(m.certs)
		n.step(true)
		if len(m.certs) > before {
			r.submitted++
			return "epoch+send"
		}
		return "epoch"
	case 2:
		before := len(m.certs)
		n.step(false)
		if len(m.certs) > before {
			r.submitted++
			return "status+send"
		}
		return "status"
	case 3:
		if m.advance() {
			return "adv"
		}
		return "adv-"
	case 4:
		if m.settleFully() {
			return "settle"
		}
		return "settle-"
	case 5, 10, 11:
		m.mu.Lock()
		if u := m.undecided(); u != nil {
			switch act {
			case 5:
				u.WithPrev = ch.Bool("errHeaderHasPrevLER")
			case 10:
				u.WithPrev = true
			case 11:
				u.WithPrev = false
			}
		}
		m.mu.Unlock()
		if m.errorOut() {
			return "error"
		}
		return "error-"
	case 6:
		k := choose.Pick(ch, []string{"SendCertificate", "GetCertificateHeader"}, "failWhich")
		m.mu.Lock()
		m.failNext[k]++
		m.mu.Unlock()
		return "fail(" + k[:4] + ")"
	case 7:
		if err := w.addL1Block(ch, ch.Int(0, 2, "l1Main"), ch.Int(0, 1, "l1Roll"), ch.Int(0, 2, "l1Info")); err != nil {
			panic(fmt.Sprintf("harness: L1 store refused a valid block: %v", err))
		}
		w.setFinalized(w.l1.Tip() - uint64(ch.Int(0, 1, "finLag")))
		return "L1"
	case 13: // the Agglayer rejects the undecided certificate and then its replacement as well (status and epoch ticks in between)
		k := 0
		for i := 0; i < 2; i++ {
			m.mu.Lock()
			if u := m.undecided(); u != nil {
				u.WithPrev = ch.Bool("errHeaderHasPrevLER")
			}
			m.mu.Unlock()
			if m.errorOut() {
				k++
			}
			n.step(false)
			n.step(true)
		}
		return fmt.Sprintf("reject*%d", k)
	case 12: // L2 block whose claims may name L1 info leaves that are not finalized yet
		cls := pickClaims(ch, w, 1+ch.Int(0, 1, "nClaims"), true)
		if err := w.addL2Block(ch, ch.Int(0, 1, "nBridges"), cls); err != nil {
			panic(fmt.Sprintf("harness: L2 store refused a valid block: %v", err))
		}
		return fmt.Sprintf("L2(%dc!)", len(cls))
	case 8: // enumerator: canned bridge block
		if err := w.addL2Block(canned, 1, nil); err != nil {
			panic(err)
		}
		return "L2(1b)"
	case 9: // enumerator: canned claim block
		cls := pickClaims(canned, w, 1, false)
		if err := w.addL2Block(canned, 0, cls); err != nil {
			panic(err)
		}
		return fmt.Sprintf("L2(%dc)", len(cls))
	}
	return "?"
}

// runWalk executes a generated schedule against a fresh world/node; the caller inspects r.m.violations.
func runWalk(ch choose.Chooser, cfg walkCfg) (*walkRes, error) {
	wch := ch
	if cfg.reduced {
		wch = &choose.Replay{}
	}
	w, err := initWorld(wch)
	if err != nil {
		return nil, err
	}
	w.noJumps = cfg.node.MaxCertSize > 0
	m := newMAgglayer(w)
	dbPath, clean := tmpDB("aggsender")
	r := &walkRes{w: w, m: m, cleanup: func() { w.close(); clean() }, storageDir: dbPath}
	var client agglayer.AgglayerClientInterface = m
	if cfg.viaGRPC {
		g, err := newGRPCAgglayer(m)
		if err != nil {
			r.cleanup()
			return nil, err
		}
		r.grpc = g
		inner := r.cleanup
		r.cleanup = func() { g.stop(); inner() }
		client = g
	}
	node, err := newASNode(w, client, dbPath, cfg.node)
	if err != nil {
		r.cleanup()
		return nil, err
	}
	r.node = node
	if err := node.startup(m, 3); err != nil {
		r.cleanup()
		return nil, fmt.Errorf("startup on an empty state failed: %v", err)
	}
	for i := 0; i < cfg.steps; i++ {
		if cfg.rotate && ch.Int(0, 7, "rotateKeyNow") == 0 {
			r.trace = append(r.trace, r.rotateKey(ch, cfg, nil))
			continue
		}
		var act int
		if cfg.reduced {
			act = []int{8, 9, 1, 2, 4, 10, 11}[ch.Int(0, 6, "action")]
		} else {
			alphabet := cfg.weights
			if alphabet == nil {
				alphabet = []int{0, 0, 0, 1, 1, 1, 2, 2, 3, 3, 4, 4, 5, 6, 7}
			}
			act = choose.Pick(ch, alphabet, "action")
			if act == 0 && cfg.beyond && ch.Int(0, 3, "beyondFinalized") == 0 {
				act = 12
			}
		}
		r.trace = append(r.trace, doAction(ch, r, act))
	}
	return r, nil
}

// drain: let everything settle (no more generator choices): settle, status tick, epoch tick, until nothing is submitted.
func (r *walkRes) drain() {
	// faults stop here: injected failures that no call has consumed yet are dropped, otherwise the quiescence rule below
	// (no new certificate, nothing undecided) can be met while a status poll is still being failed
	r.m.mu.Lock()
	for k := range r.m.failNext {
		delete(r.m.failNext, k)
	}
	r.m.mu.Unlock()
	idle := 0
	for i := 0; i < 40 && idle < 2; i++ {
		before := len(r.m.certs)
		r.m.settleFully()
		r.node.step(false)
		r.node.step(true)
		if len(r.m.certs) == before && r.m.undecided() == nil {
			idle++
		} else {
			idle = 0
		}
	}
	r.trace = append(r.trace, "|drain")
}

func (r *walkRes) classify() {
	r.settled, r.retryPath = 0, false
	for _, c := range r.m.certs {
		if c.Status == agglayertypes.Settled {
			r.settled++
			for _, p := range r.m.certs {
				if p.Seq < c.Seq && p.Cert.Height == c.Cert.Height && p.Status == agglayertypes.InError {
					r.retryPath = true
				}
			}
		}
	}
}

// storageCheck: the node's last stored certificate is the model's last received one (same id and, after a status tick, status).
func (r *walkRes) storageCheck() string {
	d := rawDB(r.storageDir)
	defer d.Close()
	rows, err := d.Query("SELECT height, certificate_id, status FROM certificate_info ORDER BY height")
	if err != nil {
		return "cannot read certificate_info: " + err.Error()
	}
	defer rows.Close()
	type row struct {
		h  uint64
		id string
		st int
	}
	var all []row
	for rows.Next() {
		var x row
		_ = rows.Scan(&x.h, &x.id, &x.st)
		all = append(all, x)
	}
	seen := map[uint64]bool{}
	for _, x := range all {
		if seen[x.h] {
			return fmt.Sprintf("two stored certificates for height %d", x.h)
		}
		seen[x.h] = true
	}
	if len(r.m.certs) == 0 {
		if len(all) != 0 {
			return "certificates stored although none was received by the Agglayer"
		}
		return ""
	}
	last := r.m.certs[len(r.m.certs)-1]
	if len(all) == 0 {
		return "no stored certificate although the Agglayer received one"
	}
	top := all[len(all)-1]
	if common.HexToHash(top.id) != last.ID || top.h != last.Cert.Height {
		return fmt.Sprintf("last stored certificate is %d/%s, the last one received by the Agglayer is %d/%s", top.h, top.id, last.Cert.Height, last.ID)
	}
	if agglayertypes.CertificateStatus(top.st) != last.Status {
		return fmt.Sprintf("stored status %s, Agglayer status %s after a status tick", agglayertypes.CertificateStatus(top.st), last.Status)
	}
	return ""
}

func genNodeCfg(ch choose.Chooser) nodeCfg {
	nc := nodeCfg{RetryImmediately: ch.Bool("retryImmediately")}
	if ch.Int(0, 3, "maxCertSize") == 0 {
		nc.MaxCertSize = uint(choose.Pick(ch, []int{1, 200, 3000, 6000}, "certSize"))
	}
	if ch.Int(0, 4, "maxL2Block") == 0 {
		nc.MaxL2Block = uint64(ch.Int(2, 12, "maxL2BlockNum"))
	}
	nc.RequireBridge = ch.Int(0, 3, "requireBridge") == 0
	return nc
}

func c02Case(ch choose.Chooser, cfg walkCfg, rec *ev.Recorder) (string, error) {
	r, err := runWalk(ch, cfg)
	if err != nil {
		return "", fmt.Errorf("INCONCLUSIVE: %v", err)
	}
	defer r.cleanup()
	r.drain()
	r.classify()
	nt := r.settled >= 2 || r.retryPath
	rec.Case(nt, fmt.Sprintf("%+v|%s", cfg.node, r.key()))
	if r.retryPath {
		rec.Class("retry_path_settled")
	}
	rec.ClassN("certificates_submitted", len(r.m.certs))
	rec.ClassN("certificates_settled", r.settled)
	if nt && rec.WantSample() {
		rec.Sample(map[string]any{"config": fmt.Sprintf("%+v", cfg.node), "schedule": r.key(), "submitted": len(r.m.certs), "settled": r.settled})
	}
	if v := r.m.firstViolation("C02"); v != nil {
		return r.key(), fmt.Errorf("%s\n  config %+v\n  schedule: %s", v.Msg, cfg.node, r.key())
	}
	if s := r.storageCheck(); s != "" {
		return r.key(), fmt.Errorf("%s\n  config %+v\n  schedule: %s", s, cfg.node, r.key())
	}
	return r.key(), nil
}

func TestC02(t *testing.T) {
	rec := ev.For("C02", c02Rule)
	rec.Assume("a failed Agglayer call is modelled as rejected without effect; an accepted-but-lost response is the crash case of C13")
	rec.Assume("L2 reorgs under a pending certificate are outside the stated quantifier")
	var rp struct {
		Choices []int   `json:"choices"`
		Depth   int     `json:"depth"`
		Node    nodeCfg `json:"node"`
	}
	if loadReplay(&rp) {
		if _, err := c02Case(&choose.Replay{Vals: rp.Choices}, walkCfg{node: rp.Node, reduced: true, steps: rp.Depth}, rec); err != nil {
			t.Fatalf("replay: %v", err)
		}
		return
	}
	// exhaustive part: every schedule up to the depth bound over the reduced alphabet, for both retry settings
	depth := 4
	if thorough() {
		depth = 6
	}
	k, nsh := enumSlot() // the enumeration is spread over every work item of the run (each case opens several stores)
	idx, done := 0, 0
	for _, retry := range []bool{false, true} {
		for d := 1; d <= depth; d++ {
			e := &choose.Enum{}
			for {
				if idx%nsh == k {
					nc := nodeCfg{RetryImmediately: retry}
					if _, err := c02Case(e, walkCfg{node: nc, reduced: true, steps: d}, rec); err != nil {
						p := saveReplay("C02", map[string]any{"choices": append([]int{}, e.Log...), "depth": d, "node": nc})
						t.Fatalf("%v (replay %s)", err, p)
					}
					done++
				} else {
					for i := 0; i < d; i++ {
						e.Int(0, 6, "action") // walk the choice tree without executing the schedule (another shard runs it)
					}
				}
				idx++
				if !e.Next() {
					break
				}
			}
		}
	}
	rec.Set("enumerated_schedules", done)
	rec.Set("enumeration_bounds", fmt.Sprintf("all schedules of length 1..%d over {L2 block with 1 bridge, L2 block with 1 claim, epoch tick, status tick, Agglayer settles oldest, Agglayer errors oldest (header with / without prev exit root)} x {retry at epoch, retry immediately}: %d in total, this shard %d", depth, idx, done))
	rapid.Check(t, func(rt *rapid.T) {
		ch := choose.Rapid{T: rt}
		cfg := walkCfg{node: genNodeCfg(ch), steps: rapid.IntRange(10, 60).Draw(rt, "steps")}
		if _, err := c02Case(ch, cfg, rec); err != nil {
			fatal(rt, "%v", err)
		}
	})
}
