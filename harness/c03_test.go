package harness

import (
	"fmt"
	"testing"

	agglayertypes "github.com/agglayer/aggkit/agglayer/types"
	"pgregory.net/rapid"

	"verifharness/choose"
	"verifharness/ev"
)

// C03 — a built certificate's new exit root follows from its bridge exits.
// C09 — claim proofs inside a certificate verify against the L1 info root it names.
// Both reuse the walk engine of c02_test.go; the oracles live in the model Agglayer (checkSubmission).

const c03Rule = "case = generated joint L1/L2 history (bridges with extreme field values, claims of both origins, empty blocks) and " +
	"schedule driving the real aggsender; every certificate received by the model Agglayer is checked: appending the hashes of " +
	"its exits (from the wire-level fields) to the Agglayer's own copy of the exit tree at the previous root must give the new " +
	"root; exits/imported exits must equal the bridge/claim events of the block range its metadata encodes, field by field and " +
	"in order; non-trivial = a certificate with >=2 exits, or >=1 exit and >=1 imported exit, or built after an InError " +
	"predecessor; distinct = hash of (config, schedule)"

const c09Rule = "case = generated L1 history (info-tree updates, verified batches for foreign rollups, finalized pointer positions) and L2 " +
	"claim history (mainnet and rollup origins, GER index at or below the finalized leaf; a fraction deliberately above it, which the oracle skips and counts) " +
	"driving the real aggsender; for every imported exit of every received certificate the enclosed L1 leaf must hash with its " +
	"proof to the root named by the certificate's leaf count, its GER must be keccak(MER,RER) and the claim's GER, and the " +
	"exit's own proofs must lead to those exit roots; non-trivial = a certificate with >=1 imported exit whose GER leaf is not " +
	"the last leaf of the named root; distinct = hash of (config, schedule)"

func contentCase(prop string, ch choose.Chooser, cfg walkCfg, rec *ev.Recorder) error {
	// a third of the cases run the aggchain-prover (FEP) configuration (fep_test.go)
	fep := ch.Int(0, 2, "fepConfiguration") == 0
	var r *walkRes
	var err error
	if fep {
		cfg.node.RequireBridge = false
		r, _, err = fepWalk(ch, cfg)
	} else {
		r, err = runWalk(ch, cfg)
	}
	if err != nil {
		return fmt.Errorf("INCONCLUSIVE: %v", err)
	}
	defer r.cleanup()
	r.drain()
	nt := false
	imported := 0
	for _, c := range r.m.certs {
		ne, ni := len(c.Cert.BridgeExits), len(c.Cert.ImportedBridgeExits)
		imported += ni
		switch prop {
		case "C03":
			afterErr := false
			for _, p := range r.m.certs {
				if p.Seq < c.Seq && p.Cert.Height == c.Cert.Height && p.Status == agglayertypes.InError {
					afterErr = true
				}
			}
			if ne >= 2 || (ne >= 1 && ni >= 1) || afterErr {
				nt = true
			}
		case "C09":
			for _, ib := range c.Cert.ImportedBridgeExits {
				var idx uint32
				switch cd := ib.ClaimData.(type) {
				case *agglayertypes.ClaimFromMainnnet:
					idx = cd.L1Leaf.L1InfoTreeIndex
				case *agglayertypes.ClaimFromRollup:
					idx = cd.L1Leaf.L1InfoTreeIndex
				}
				if idx+1 < c.Cert.L1InfoTreeLeafCount {
					nt = true
				}
			}
		}
	}
	rec.Case(nt, fmt.Sprintf("%v|%+v|%s", fep, cfg.node, r.key()))
	rec.ClassN("certificates_checked", len(r.m.certs))
	if fep {
		rec.ClassN("fep_certificates_checked", len(r.m.certs))
	}
	rec.ClassN("imported_exits_checked", imported)
	rec.ClassN("imported_exits_outside_domain_skipped", r.m.outOfDomain)
	if nt && rec.WantSample() {
		rec.Sample(map[string]any{"config": fmt.Sprintf("%+v", cfg.node), "schedule": r.key(), "certificates": len(r.m.certs), "imported_exits": imported})
	}
	if v := r.m.firstViolation(prop); v != nil {
		return fmt.Errorf("%s\n  config %+v\n  schedule: %s", v.Msg, cfg.node, r.key())
	}
	return nil
}

func TestC03(t *testing.T) {
	rec := ev.For("C03", c03Rule)
	rapid.Check(t, func(rt *rapid.T) {
		ch := choose.Rapid{T: rt}
		cfg := walkCfg{node: genNodeCfg(ch), steps: rapid.IntRange(10, 50).Draw(rt, "steps"),
			weights: []int{0, 0, 0, 0, 1, 1, 1, 2, 2, 4, 4, 5, 5, 13, 7}}
		if err := contentCase("C03", ch, cfg, rec); err != nil {
			fatal(rt, "%v", err)
		}
	})
}

func TestC09(t *testing.T) {
	rec := ev.For("C09", c09Rule)
	rec.Assume("claims name a GER at or below the finalized L1 info leaf (the oracle only injects finalized roots); claims above it are generated too, and are skipped by the oracle (counted as imported_exits_outside_domain_skipped)")
	rapid.Check(t, func(rt *rapid.T) {
		ch := choose.Rapid{T: rt}
		cfg := walkCfg{node: genNodeCfg(ch), steps: rapid.IntRange(10, 50).Draw(rt, "steps"), beyond: true,
			weights: []int{0, 0, 0, 0, 1, 1, 1, 2, 4, 4, 4, 5, 7, 7, 7}}
		if err := contentCase("C09", ch, cfg, rec); err != nil {
			fatal(rt, "%v", err)
		}
	})
}
