package harness

import (
	"context"
	"errors"
	"fmt"
	"math/big"
	"sync"
	"testing"
	"time"

	cfgtypes "github.com/agglayer/aggkit/config/types"
	aggkitdb "github.com/agglayer/aggkit/db"
	"github.com/agglayer/aggkit/l1infotreesync"
	"github.com/agglayer/aggkit/lastgersync"
	"github.com/agglayer/aggkit/reorgdetector"
	treetypes "github.com/agglayer/aggkit/tree/types"
	aggkittypes "github.com/agglayer/aggkit/types"
	"github.com/ethereum/go-ethereum"
	"github.com/ethereum/go-ethereum/common"
	"github.com/ethereum/go-ethereum/core/types"
	"github.com/ethereum/go-ethereum/crypto"
	"pgregory.net/rapid"

	"verifharness/ev"
	"verifharness/fakechain"
)

// C16 — the injected-GER index reflects what was really injected on L2.

const c16Rule = "case = (L2 history with at most one GER insert/remove event per block, a polling cadence: the visible tip advances by " +
	"1..10 blocks between two polls of the node, optional stop/restart at a generated RPC) run through the public " +
	"lastgersync.New (PP mode) with the real reorg detector on a scripted chain; at quiescence, for every X in range: " +
	"GetFirstGERAfterL1InfoTreeIndex(X) must return a GER inserted in a block <= visible tip, not removed since, with index >= X, " +
	"and must find one whenever one exists; non-trivial = >=2 insertions with a poll gap >=2 blocks or a restart between them; " +
	"distinct = hash of (events per block, cadence, restart)"

var (
	c16GERAddr   = common.HexToAddress("0x3333333333333333333333333333333333333333")
	c16InsertSig = crypto.Keccak256Hash([]byte("UpdateHashChainValue(bytes32,bytes32)"))
	c16RemoveSig = crypto.Keccak256Hash([]byte("UpdateRemovalHashChainValue(bytes32,bytes32)"))
)

type c16Querier struct {
	mu  sync.Mutex
	idx map[common.Hash]uint32
	lag map[common.Hash]int // the L1 info tree syncer is behind: this many look-ups of the root answer "not found" first
}

func (q *c16Querier) GetLastL1InfoTreeRoot(context.Context) (treetypes.Root, error) {
	return treetypes.Root{}, aggkitdb.ErrNotFound
}
func (q *c16Querier) GetInfoByIndex(context.Context, uint32) (*l1infotreesync.L1InfoTreeLeaf, error) {
	return nil, aggkitdb.ErrNotFound
}
func (q *c16Querier) GetInfoByGlobalExitRoot(g common.Hash) (*l1infotreesync.L1InfoTreeLeaf, error) {
	q.mu.Lock()
	defer q.mu.Unlock()
	i, ok := q.idx[g]
	if !ok {
		return nil, aggkitdb.ErrNotFound
	}
	if q.lag[g] > 0 {
		q.lag[g]--
		return nil, aggkitdb.ErrNotFound
	}
	return &l1infotreesync.L1InfoTreeLeaf{L1InfoTreeIndex: i, GlobalExitRoot: g}, nil
}

type c16Ev struct {
	Kind int // 0 none, 1 insert, 2 remove
	GER  common.Hash
	Idx  uint32
	Lag  int // insert: look-ups of this root that the (lagging) L1 info tree syncer answers with "not found" first
}

type c16Case struct {
	SafeTag     bool // the syncer is configured to follow the safe block
	ForkMidPoll bool // the L2 fork happens between the node's range query and its header cross-check
	Long        int  // length of an inserted stretch of event-less blocks (0: none)
	Blocks      []c16Ev
	Gaps        []int // tip advance per poll
	RestartAt   int
	// an L2 reorg: at the ForkStep-th tip poll the blocks ForkAt..end are replaced by ForkSuffix (ForkAt is above the
	// finalized block of that moment and at or below the visible tip). ForkAt == 0: no reorg.
	ForkStep   int
	ForkAt     uint64
	ForkSuffix []c16Ev
	// Instant: the L2 has instant finality (finalized == latest) and blocks are also sealed in the middle of a poll
	// (between the node's range query and its next finality query). No reorgs then.
	Instant bool
}

// canonical returns the final canonical chain's events per block.
func (c c16Case) canonical() []c16Ev {
	if c.ForkAt == 0 {
		return c.Blocks
	}
	return append(append([]c16Ev{}, c.Blocks[:c.ForkAt-1]...), c.ForkSuffix...)
}

// c16GenEvents appends events for blocks from..to (1-based) to evs, given the live set and the next index.
func c16GenEvents(rt *rapid.T, evs []c16Ev, live []common.Hash, idx uint32, from, to int, salt byte) ([]c16Ev, []common.Hash, uint32) {
	idx0 := idx // indexes at or below this one may belong to roots this call does not know about
	for i := from; i <= to; i++ {
		switch rapid.SampledFrom([]int{0, 0, 1, 1, 1, 2}).Draw(rt, "evKind") {
		case 1:
			g := common.BigToHash(common.Big1)
			g[0], g[1], g[2], g[3] = byte(i), byte(i>>8), 0xee, salt
			lag := rapid.SampledFrom([]int{0, 0, 0, 0, 1, 3}).Draw(rt, "l1InfoLag")
			// the L2 contract accepts any root of the L1 info tree: usually a newer one, sometimes one with a lower index
			// than roots injected before, sometimes a root that was injected and removed earlier
			used := map[uint32]bool{}
			isLive := map[common.Hash]bool{}
			for _, l := range live {
				isLive[l] = true
			}
			var again []c16Ev
			for _, e := range evs {
				if e.Kind == 1 {
					used[e.Idx] = true
					if !isLive[e.GER] {
						again = append(again, e)
					}
				}
			}
			var lower []uint32
			for x := idx0 + 1; x < idx; x++ {
				if !used[x] {
					lower = append(lower, x)
				}
			}
			switch kind := rapid.SampledFrom([]int{0, 0, 0, 0, 1, 2}).Draw(rt, "insertKind"); {
			case kind == 1 && len(lower) > 0:
				evs = append(evs, c16Ev{Kind: 1, GER: g, Idx: lower[rapid.IntRange(0, len(lower)-1).Draw(rt, "lowerIdx")], Lag: lag})
				live = append(live, g)
			case kind == 2 && len(again) > 0:
				e := again[rapid.IntRange(0, len(again)-1).Draw(rt, "injectAgain")]
				evs = append(evs, c16Ev{Kind: 1, GER: e.GER, Idx: e.Idx, Lag: lag})
				live = append(live, e.GER)
			default:
				idx += uint32(rapid.IntRange(1, 3).Draw(rt, "idxGap"))
				evs = append(evs, c16Ev{Kind: 1, GER: g, Idx: idx, Lag: lag})
				live = append(live, g)
			}
		case 2:
			if len(live) > 0 {
				k := rapid.IntRange(0, len(live)-1).Draw(rt, "rmWhich")
				evs = append(evs, c16Ev{Kind: 2, GER: live[k]})
				live = append(live[:k:k], live[k+1:]...)
			} else {
				evs = append(evs, c16Ev{})
			}
		default:
			evs = append(evs, c16Ev{})
		}
	}
	return evs, live, idx
}

func c16Gen(rt *rapid.T) c16Case {
	var c c16Case
	n := rapid.IntRange(2, 40).Draw(rt, "nBlocks")
	c.Blocks, _, _ = c16GenEvents(rt, nil, nil, 0, 1, n, 0)
	total := 0
	for total < n {
		g := rapid.IntRange(1, 10).Draw(rt, "pollGap")
		c.Gaps = append(c.Gaps, g)
		total += g
	}
	c.RestartAt = -1
	if rapid.IntRange(0, 2).Draw(rt, "restart") == 0 {
		c.RestartAt = rapid.IntRange(2, 40).Draw(rt, "restartAt")
	}
	c.Instant = rapid.IntRange(0, 3).Draw(rt, "instantFinality") == 0
	c.SafeTag = rapid.IntRange(0, 3).Draw(rt, "followSafeBlock") == 0
	if !c.Instant && len(c.Gaps) >= 2 && rapid.IntRange(0, 2).Draw(rt, "l2Reorg") == 0 {
		step := rapid.IntRange(1, len(c.Gaps)-1).Draw(rt, "forkStep")
		lat := 0
		for _, g := range c.Gaps[:step] {
			lat += g
		}
		if lat > n {
			lat = n
		}
		fin := 0
		if lat > 3 {
			fin = lat - 3
		}
		at := rapid.IntRange(fin+1, lat).Draw(rt, "forkAt")
		// known finding F4 (C04): reorging a block that holds a removal does not bring the removed row back. Forks that
		// replace a visible removal are excluded by construction (moved above it) and counted.
		for b := lat; b >= at; b-- {
			if c.Blocks[b-1].Kind == 2 {
				at = b + 1
				c16ExcludedF4++
				break
			}
		}
		if at <= lat {
			var live []common.Hash
			idx := uint32(0)
			for _, e := range c.Blocks[:at-1] {
				switch e.Kind {
				case 1:
					live = append(live, e.GER)
					idx = e.Idx
				case 2:
					for k, g := range live {
						if g == e.GER {
							live = append(live[:k:k], live[k+1:]...)
							break
						}
					}
				}
			}
			c.ForkStep, c.ForkAt = step, uint64(at)
			c.ForkMidPoll = rapid.Bool().Draw(rt, "forkDuringHeaderCrossCheck")
			c.ForkSuffix, _, _ = c16GenEvents(rt, nil, live, idx+100, at, n, 0xf0)
		}
	}
	if c.ForkAt == 0 && n >= 3 && rapid.IntRange(0, 11).Draw(rt, "longQuietStretch") == 0 {
		// thousands of L2 blocks without an event pass between two polls (a node that was down, a quiet chain): the
		// stretch is sized so that the next event sits about 5000 or 10000 blocks after the block the next range starts from
		p := rapid.IntRange(1, n-1).Draw(rt, "stretchAfterBlock") // the stretch follows block p
		e0 := 0
		for i := 1; i <= p; i++ {
			if c.Blocks[i-1].Kind != 0 {
				e0 = i
			}
		}
		q := p + 1
		for q < n && c.Blocks[q-1].Kind == 0 {
			q++
		}
		k := rapid.SampledFrom([]int{5000, 5001, 10001, 10002}).Draw(rt, "stretchTarget") + e0 + 1 - q + rapid.SampledFrom([]int{-1, 0, 0, 0, 1}).Draw(rt, "stretchJitter")
		if k > 0 {
			blocks := append([]c16Ev{}, c.Blocks[:p]...)
			blocks = append(blocks, make([]c16Ev, k)...)
			c.Blocks = append(blocks, c.Blocks[p:]...)
			sum := 0
			for i, g := range c.Gaps {
				sum += g
				if sum > p || i == len(c.Gaps)-1 {
					c.Gaps[i] += k
					break
				}
			}
			c.Long = k
		}
	}
	return c
}

var c16ExcludedF4 int

func c16EvLogs(e c16Ev) []types.Log {
	switch e.Kind {
	case 1:
		return []types.Log{{Address: c16GERAddr, Topics: []common.Hash{c16InsertSig, e.GER, {0xaa}}}}
	case 2:
		return []types.Log{{Address: c16GERAddr, Topics: []common.Hash{c16RemoveSig, e.GER, {0xbb}}}}
	}
	return nil
}

func (c c16Case) logs(i int) []types.Log {
	e := c.Blocks[i]
	switch e.Kind {
	case 1:
		return []types.Log{{Address: c16GERAddr, Topics: []common.Hash{c16InsertSig, e.GER, {0xaa}}}}
	case 2:
		return []types.Log{{Address: c16GERAddr, Topics: []common.Hash{c16RemoveSig, e.GER, {0xbb}}}}
	}
	return nil
}

// live set as of block tip (reference).
func (c c16Case) liveAt(tip uint64) map[common.Hash]uint32 {
	live := map[common.Hash]uint32{}
	for i, e := range c.canonical() {
		if uint64(i+1) > tip {
			break
		}
		switch e.Kind {
		case 1:
			live[e.GER] = e.Idx
		case 2:
			delete(live, e.GER)
		}
	}
	return live
}

func c16Verdict(c c16Case, s *lastgersync.LastGERSync, tip uint64) string {
	live := c.liveAt(tip)
	maxIdx := uint32(0)
	for _, e := range append(append([]c16Ev{}, c.Blocks...), c.ForkSuffix...) {
		if e.Idx > maxIdx {
			maxIdx = e.Idx
		}
	}
	for x := uint32(0); x <= maxIdx+1; x++ {
		exists := false
		for _, i := range live {
			if i >= x {
				exists = true
			}
		}
		got, err := s.GetFirstGERAfterL1InfoTreeIndex(bg, x)
		if err != nil {
			if !errors.Is(err, aggkitdb.ErrNotFound) {
				return fmt.Sprintf("query X=%d failed: %v", x, err)
			}
			if exists {
				return fmt.Sprintf("query X=%d says not found, but a GER with index >= %d was injected in a block <= %d and not removed (live set %v)", x, x, tip, live)
			}
			continue
		}
		i, ok := live[got.GlobalExitRoot]
		if !ok {
			return fmt.Sprintf("query X=%d returned GER %s (index %d) which is not in the set of injected-and-not-removed GERs as of block %d", x, got.GlobalExitRoot.Hex()[:12], got.L1InfoTreeIndex, tip)
		}
		if got.L1InfoTreeIndex < x || got.L1InfoTreeIndex != i {
			return fmt.Sprintf("query X=%d returned index %d (GER's index is %d)", x, got.L1InfoTreeIndex, i)
		}
	}
	return ""
}

func c16Run(c c16Case) (verdict string, inconcl string) {
	chain := fakechain.New()
	for i := range c.Blocks {
		chain.Extend(c.logs(i))
	}
	n := uint64(len(c.Blocks))
	// the syncer follows the latest block or (SafeTag) the safe block - the scripted chain moves both together - while the
	// reorg detector keeps tracking down to the finalized one
	tipTag, finality := "latest", aggkittypes.LatestBlock
	if c.SafeTag {
		tipTag, finality = "safe", aggkittypes.SafeBlock
	}
	q := &c16Querier{idx: map[common.Hash]uint32{}, lag: map[common.Hash]int{}}
	for _, e := range append(append([]c16Ev{}, c.Blocks...), c.ForkSuffix...) {
		if e.Kind == 1 {
			q.idx[e.GER] = e.Idx
			q.lag[e.GER] = e.Lag
		}
	}
	var (
		mu        sync.Mutex
		step      int
		lat       uint64
		parked    int
		rpcs      int
		restarted bool
		forked    bool
		armed     bool // the fork waits for the node's next header cross-check (ForkMidPoll)
		midPoll   bool
		cancelFn  context.CancelFunc
		// observation O7: EVMDriver.handleReorg retries processor.Reorg for ever on a cancelled context, so Sync does not
		// return when it is cancelled inside a reorg; such an instance is abandoned like a killed process
		cancelledAt time.Time
	)
	chain.Hook = func(ch *fakechain.Chain, call fakechain.Call) error {
		mu.Lock()
		defer mu.Unlock()
		if call.Method == "HeaderByNumber" && call.Tag == "finalized" {
			// the reorg detector's sweep or the downloader's finality query: not a poll for new blocks. On an L2 with
			// instant finality a block can be sealed between the downloader's range query and its finality query.
			if c.Instant && midPoll && step < len(c.Gaps) {
				midPoll = false
				lat = min64(lat+uint64(c.Gaps[step]), n)
				step++
				ch.SetPointersLocked(lat, lat, lat)
			}
			return nil
		}
		rpcs++
		if c.RestartAt >= 0 && !restarted && rpcs == c.RestartAt && cancelFn != nil {
			restarted = true
			cancelledAt = time.Now()
			cancelFn()
		}
		doFork := func() {
			forked = true
			var suffix [][]types.Log
			for _, e := range c.ForkSuffix {
				suffix = append(suffix, c16EvLogs(e))
			}
			ch.ForkLocked(c.ForkAt, suffix)
			// the new fork shows as much as the old one did
			fin := uint64(0)
			if lat > 3 {
				fin = lat - 3
			}
			ch.SetPointersLocked(lat, lat, fin)
		}
		if armed && !forked && call.Method == "HeaderByNumber" && call.Tag == "" && call.Num >= c.ForkAt {
			// the chain forks while the node is cross-checking the headers of the range it has just fetched
			doFork()
		}
		if call.Method == "HeaderByNumber" && call.Tag == tipTag {
			if c.ForkAt != 0 && step == c.ForkStep && !forked {
				doFork() // at the tip poll (also the fall-back of a mid-poll fork that found no header cross-check)
			}
			if c.ForkAt != 0 && c.ForkMidPoll && step+1 == c.ForkStep && !forked {
				// this poll shows the tip the fork was generated for; the fork happens at the node's next cross-check of a
				// header at or above the fork point (the finalized block reported meanwhile stays below it)
				armed = true
			}
			if step < len(c.Gaps) {
				lat = min64(lat+uint64(c.Gaps[step]), n)
				step++
			} else {
				parked++
			}
			fin := uint64(0)
			if lat > 3 {
				fin = lat - 3
			}
			if c.Instant {
				fin = lat
			}
			ch.SetPointersLocked(lat, lat, fin)
		} else if call.Method == "FilterLogs" {
			// only the downloader's range queries count as activity: the reorg detector re-reads the headers of the tracked
			// (not yet finalized) blocks on every sweep, for ever
			parked = 0
			midPoll = true
		}
		return nil
	}
	dir, clean := tmpDB("c16")
	defer clean()
	rdPath := dir + ".rd"
	var cur *lastgersync.LastGERSync
	start := func(ctx context.Context) (chan struct{}, error) {
		rd, err := reorgdetector.New(chain, reorgdetector.Config{DBPath: rdPath, CheckReorgsInterval: cfgtypes.NewDuration(time.Millisecond),
			FinalizedBlock: aggkittypes.FinalizedBlock}, reorgdetector.L2)
		if err != nil {
			return nil, err
		}
		if err := rd.Start(ctx); err != nil {
			return nil, err
		}
		s, err := lastgersync.New(ctx, dir, rd, chain, c16GERAddr, q, time.Millisecond, -1, finality, time.Millisecond, 100, false, lastgersync.PP)
		if err != nil {
			return nil, err
		}
		cur = s
		done := make(chan struct{})
		go func() { _ = s.Start(ctx); close(done) }()
		return done, nil
	}
	ctx, cancel := context.WithCancel(context.Background())
	mu.Lock()
	cancelFn = cancel
	mu.Unlock()
	done, err := start(ctx)
	if err != nil {
		cancel()
		return "", "constructor: " + err.Error()
	}
	deadline := time.Now().Add(120 * time.Second)
	var idleSince time.Time
	for {
		stopped := false
		select {
		case <-done:
			stopped = true
		default:
			mu.Lock()
			stopped = !cancelledAt.IsZero() && time.Since(cancelledAt) > 2*time.Second
			mu.Unlock()
		}
		if stopped {
			ctx, cancel = context.WithCancel(context.Background())
			mu.Lock()
			cancelFn = cancel
			cancelledAt = time.Time{}
			parked = 0
			mu.Unlock()
			if done, err = start(ctx); err != nil {
				cancel()
				return "", "constructor after restart: " + err.Error()
			}
			continue
		}
		mu.Lock()
		isParked := step >= len(c.Gaps) && parked >= 3
		tip := lat
		mu.Unlock()
		if isParked {
			verdict = c16Verdict(c, cur, tip)
			if verdict == "" {
				break
			}
			if idleSince.IsZero() {
				idleSince = time.Now()
			}
			if time.Since(idleSince) > 3*time.Second {
				break // idle and different
			}
		} else {
			idleSince = time.Time{}
		}
		if time.Now().After(deadline) {
			inconcl = "node did not reach quiescence within 120s"
			break
		}
		time.Sleep(500 * time.Microsecond)
	}
	cancel()
	select {
	case <-done:
	case <-time.After(3 * time.Second): // O7: abandoned
	}
	return
}

func c16NonTrivial(c c16Case) bool {
	// two insertions separated by a poll boundary with gap >= 2, or a restart
	ins := 0
	for _, e := range c.Blocks {
		if e.Kind == 1 {
			ins++
		}
	}
	big := false
	for _, g := range c.Gaps {
		if g >= 2 {
			big = true
		}
	}
	return ins >= 2 && (big || c.RestartAt >= 0)
}

const c16SigSkipped = "kind=events-in-blocks-skipped-between-two-polls-are-never-fetched downloader=lastgersync-PP"

func TestC16(t *testing.T) {
	rec := ev.For("C16", c16Rule)
	rapid.Check(t, func(rt *rapid.T) {
		c := c16Gen(rt)
		v, inc := c16Run(c)
		if inc != "" {
			rt.Fatalf("INCONCLUSIVE: %s", inc)
		}
		nt := c16NonTrivial(c)
		rec.Case(nt, fmt.Sprint(c))
		if c.RestartAt >= 0 {
			rec.Class("with_restart")
		}
		if c.ForkAt != 0 {
			rec.Class("with_l2_reorg")
		}
		if c.Long > 0 {
			rec.Class("with_thousands_of_event_less_blocks_between_two_polls")
		}
		if c.Instant {
			rec.Class("with_instant_finality_and_blocks_sealed_mid_poll")
		}
		rec.Set("forks_moved_above_a_visible_removal_known_finding_F4", c16ExcludedF4)
		if nt && rec.WantSample() {
			var evs []string
			for i, e := range c.Blocks {
				if e.Kind != 0 {
					evs = append(evs, fmt.Sprintf("blk%d:%s(idx %d)", i+1, []string{"", "insert", "remove"}[e.Kind], e.Idx))
				}
			}
			rec.Sample(map[string]any{"events": evs, "tip_advance_per_poll": c.Gaps, "restart_at_rpc": c.RestartAt})
		}
		if v != "" {
			rt.Fatalf("%s\ncase: %+v", v, c)
		}
	})
}

// ---- FEP mode: the downloader polls the L2 GER contract's globalExitRootMap for every L1 info index it does not hold yet ----

var c16MapSelector = crypto.Keccak256([]byte("globalExitRootMap(bytes32)"))[:4]

type c16FEPQuerier struct {
	leaves []common.Hash // L1 info tree: index -> GER (the L1 syncer is complete from the start)
}

func (q *c16FEPQuerier) GetLastL1InfoTreeRoot(context.Context) (treetypes.Root, error) {
	if len(q.leaves) == 0 {
		return treetypes.Root{}, aggkitdb.ErrNotFound
	}
	return treetypes.Root{Index: uint32(len(q.leaves) - 1)}, nil
}
func (q *c16FEPQuerier) GetInfoByIndex(_ context.Context, i uint32) (*l1infotreesync.L1InfoTreeLeaf, error) {
	if int(i) >= len(q.leaves) {
		return nil, aggkitdb.ErrNotFound
	}
	return &l1infotreesync.L1InfoTreeLeaf{L1InfoTreeIndex: i, GlobalExitRoot: q.leaves[i]}, nil
}
func (q *c16FEPQuerier) GetInfoByGlobalExitRoot(common.Hash) (*l1infotreesync.L1InfoTreeLeaf, error) {
	return nil, aggkitdb.ErrNotFound
}

type c16FEPCase struct {
	NLeaves   int   // L1 info tree size
	InjectAt  []int // per L2 block (number = index+1): L1 info index injected in that block, or -1
	Gaps      []int
	RestartAt int
	Word      int // what the L2 GER contract's map holds for an injected root: 0 timestamp, 1 the block's hash, 2 2^256-1, 3 2^63, 4 2^64, 5 one
}

func c16FEPGen(rt *rapid.T) c16FEPCase {
	var c c16FEPCase
	n := rapid.IntRange(2, 30).Draw(rt, "nBlocks")
	next := 0
	for i := 0; i < n; i++ {
		if rapid.IntRange(0, 2).Draw(rt, "inject") == 0 {
			next += rapid.IntRange(0, 2).Draw(rt, "idxGap") // the oracle injects increasing indexes and may skip some
			c.InjectAt = append(c.InjectAt, next)
			next++
		} else {
			c.InjectAt = append(c.InjectAt, -1)
		}
	}
	c.NLeaves = next + rapid.IntRange(0, 3).Draw(rt, "notInjectedYet")
	total := 0
	for total < n {
		g := rapid.IntRange(1, 8).Draw(rt, "pollGap")
		c.Gaps = append(c.Gaps, g)
		total += g
	}
	c.RestartAt = -1
	if rapid.IntRange(0, 2).Draw(rt, "restart") == 0 {
		c.RestartAt = rapid.IntRange(2, 60).Draw(rt, "restartAt")
	}
	c.Word = rapid.SampledFrom([]int{0, 0, 1, 1, 1, 2, 3, 4, 5}).Draw(rt, "mapWord")
	return c
}

func c16FEPRun(c c16FEPCase) (verdict, inconcl string) {
	chain := fakechain.New()
	n := uint64(len(c.InjectAt))
	for range c.InjectAt {
		chain.Extend(nil)
	}
	q := &c16FEPQuerier{}
	for i := 0; i < c.NLeaves; i++ {
		g := common.BigToHash(common.Big1)
		g[0], g[1], g[2] = byte(i), byte(i>>8), 0xfe
		q.leaves = append(q.leaves, g)
	}
	injectedAt := map[common.Hash]uint64{} // GER -> L2 block of its injection
	idxOf := map[common.Hash]uint32{}
	for b, idx := range c.InjectAt {
		if idx >= 0 {
			injectedAt[q.leaves[idx]] = uint64(b + 1)
			idxOf[q.leaves[idx]] = uint32(idx)
		}
	}
	var (
		mu        sync.Mutex
		step      int
		lat       uint64
		parked    int
		rpcs      int
		restarted bool
		cancelFn  context.CancelFunc
	)
	chain.CallHandler = func(ch *fakechain.Chain, call ethereum.CallMsg) ([]byte, error) {
		out := make([]byte, 32)
		if len(call.Data) == 36 && string(call.Data[:4]) == string(c16MapSelector) {
			if b, ok := injectedAt[common.BytesToHash(call.Data[4:])]; ok && b <= ch.LatestLocked() {
				// both deployed manager generations exist: one keeps the block's timestamp, the other a block hash; any
				// non-zero word means "injected"
				var w common.Hash
				switch c.Word {
				case 1:
					w = ch.HeaderLocked(b).Hash()
				case 2:
					w = common.BigToHash(new(big.Int).Sub(new(big.Int).Lsh(common.Big1, 256), common.Big1))
				case 3:
					w = common.BigToHash(new(big.Int).Lsh(common.Big1, 63))
				case 4:
					w = common.BigToHash(new(big.Int).Lsh(common.Big1, 64))
				case 5:
					w = common.BigToHash(common.Big1)
				default:
					w = common.BigToHash(new(big.Int).SetUint64(ch.HeaderLocked(b).Time))
				}
				copy(out, w[:])
			}
		}
		return out, nil
	}
	chain.Hook = func(ch *fakechain.Chain, call fakechain.Call) error {
		mu.Lock()
		defer mu.Unlock()
		if call.Method == "HeaderByNumber" && call.Tag == "finalized" {
			return nil
		}
		rpcs++
		if c.RestartAt >= 0 && !restarted && rpcs == c.RestartAt && cancelFn != nil {
			restarted = true
			cancelFn()
		}
		if call.Method == "HeaderByNumber" && call.Tag == "latest" {
			if step < len(c.Gaps) {
				lat = min64(lat+uint64(c.Gaps[step]), n)
				step++
			} else {
				parked++
			}
			fin := uint64(0)
			if lat > 3 {
				fin = lat - 3
			}
			ch.SetPointersLocked(lat, lat, fin)
		} else if call.Method == "CallContract" {
			parked = 0
		}
		return nil
	}
	dir, clean := tmpDB("c16fep")
	defer clean()
	rdPath := dir + ".rd"
	var cur *lastgersync.LastGERSync
	start := func(ctx context.Context) (chan struct{}, error) {
		rd, err := reorgdetector.New(chain, reorgdetector.Config{DBPath: rdPath, CheckReorgsInterval: cfgtypes.NewDuration(time.Millisecond),
			FinalizedBlock: aggkittypes.FinalizedBlock}, reorgdetector.L2)
		if err != nil {
			return nil, err
		}
		if err := rd.Start(ctx); err != nil {
			return nil, err
		}
		s, err := lastgersync.New(ctx, dir, rd, chain, c16GERAddr, q, time.Millisecond, -1, aggkittypes.LatestBlock, time.Millisecond, 100, false, lastgersync.FEP)
		if err != nil {
			return nil, err
		}
		cur = s
		done := make(chan struct{})
		go func() { _ = s.Start(ctx); close(done) }()
		return done, nil
	}
	ctx, cancel := context.WithCancel(context.Background())
	mu.Lock()
	cancelFn = cancel
	mu.Unlock()
	done, err := start(ctx)
	if err != nil {
		cancel()
		return "", "constructor: " + err.Error()
	}
	// the FEP downloader reads the contract at the latest block and, after a restart, only looks again when a block
	// newer than lastProcessed+1 appears: what it must have found is judged against the blocks it has processed (lp),
	// what it may have found against the visible tip
	check := func(tip, lp uint64) string {
		live := map[common.Hash]uint32{}
		maxIdx := uint32(0)
		for g, b := range injectedAt {
			if b <= tip {
				live[g] = idxOf[g]
				if idxOf[g] > maxIdx {
					maxIdx = idxOf[g]
				}
			}
		}
		for x := uint32(0); x <= maxIdx+1; x++ {
			exists := false
			for g, i := range live {
				exists = exists || (i >= x && injectedAt[g] <= lp)
			}
			got, err := cur.GetFirstGERAfterL1InfoTreeIndex(bg, x)
			if err != nil {
				if !errors.Is(err, aggkitdb.ErrNotFound) {
					return fmt.Sprintf("query X=%d failed: %v", x, err)
				}
				if exists {
					return fmt.Sprintf("query X=%d says not found, but a GER with index >= %d was injected in a block <= %d (injected indexes %v)", x, x, tip, live)
				}
				continue
			}
			i, ok := live[got.GlobalExitRoot]
			if !ok {
				return fmt.Sprintf("query X=%d returned GER %s (index %d) which was not injected on L2 in a block <= %d", x, got.GlobalExitRoot.Hex()[:12], got.L1InfoTreeIndex, tip)
			}
			if got.L1InfoTreeIndex < x || got.L1InfoTreeIndex != i {
				return fmt.Sprintf("query X=%d returned index %d (the GER's index is %d)", x, got.L1InfoTreeIndex, i)
			}
		}
		return ""
	}
	deadline := time.Now().Add(120 * time.Second)
	var idleSince time.Time
	for {
		select {
		case <-done:
			ctx, cancel = context.WithCancel(context.Background())
			mu.Lock()
			cancelFn = cancel
			parked = 0
			mu.Unlock()
			if done, err = start(ctx); err != nil {
				cancel()
				return "", "constructor after restart: " + err.Error()
			}
			continue
		default:
		}
		mu.Lock()
		isParked := step >= len(c.Gaps) && parked >= 3
		tip := lat
		mu.Unlock()
		if lp, e := cur.GetLastProcessedBlock(bg); isParked && e == nil && lp+1 >= tip {
			verdict = check(tip, lp)
			if verdict == "" {
				break
			}
			if idleSince.IsZero() {
				idleSince = time.Now()
			}
			if time.Since(idleSince) > 3*time.Second {
				break
			}
		} else {
			idleSince = time.Time{}
		}
		if time.Now().After(deadline) {
			mu.Lock()
			lp, _ := cur.GetLastProcessedBlock(bg)
			inconcl = fmt.Sprintf("node did not reach quiescence within 120s (FEP mode): script step %d/%d, parked polls %d, tip %d, last processed %d, case %+v", step, len(c.Gaps), parked, lat, lp, c)
			mu.Unlock()
			break
		}
		time.Sleep(500 * time.Microsecond)
	}
	cancel()
	select {
	case <-done:
	case <-time.After(90 * time.Second):
		inconcl = "syncer did not stop within 90s of cancellation"
	}
	return
}

func TestC16FEP(t *testing.T) {
	rec := ev.For("C16", c16Rule)
	rec.Set("fep_mode", "a quarter of the case budget runs lastgersync.New in FEP mode: the downloader asks the L2 GER contract (eth_call answered by the scripted chain from the injection history) for every L1 info index it does not hold yet; same oracle, no removals (the FEP contract has none)")
	rapid.Check(t, func(rt *rapid.T) {
		if rapid.IntRange(0, 3).Draw(rt, "runFEPMode") != 0 {
			return
		}
		c := c16FEPGen(rt)
		v, inc := c16FEPRun(c)
		if inc != "" {
			rt.Fatalf("INCONCLUSIVE: %s", inc)
		}
		inj := 0
		for _, i := range c.InjectAt {
			if i >= 0 {
				inj++
			}
		}
		rec.Case(inj >= 2, fmt.Sprint("fep", c))
		rec.Class("fep_mode_cases")
		if v != "" {
			rt.Fatalf("[FEP mode] %s\ncase: %+v", v, c)
		}
	})
}
