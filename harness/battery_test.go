package harness

import (
	"context"
	"database/sql"
	"encoding/json"
	"errors"
	"fmt"
	"reflect"
	"sort"
	"strings"

	aggkitdb "github.com/agglayer/aggkit/db"
	"github.com/agglayer/aggkit/l1infotreesync"
	aggkitsync "github.com/agglayer/aggkit/sync"
	"github.com/ethereum/go-ethereum/common"
	"pgregory.net/rapid"
)

// Query battery: every exported method of a store facade, enumerated by reflection (so that queries added later are
// included), called with arguments synthesised from typed value pools.

var (
	tCtx    = reflect.TypeOf((*context.Context)(nil)).Elem()
	tErr    = reflect.TypeOf((*error)(nil)).Elem()
	tHash   = reflect.TypeOf(common.Hash{})
	tU64    = reflect.TypeOf(uint64(0))
	tU32    = reflect.TypeOf(uint32(0))
	tU64Ptr = reflect.TypeOf((*uint64)(nil))
	tU32s   = reflect.TypeOf([]uint32(nil))
	tStr    = reflect.TypeOf("")
)

// methods excluded from the battery, by exact name, with the reason (recorded in the evidence).
var batteryExcluded = map[string]string{
	"Start":                   "not a query: starts the synchronisation loop",
	"GetLastReorgEvent":       "reads the reorg detector's audit table, not the store (no detector is wired by the facade constructor)",
	"GetContractDepositCount": "calls the bridge contract over RPC, not the store",
	"OriginNetwork":           "not a data query (configuration constant, no error result)",
	"BlockFinality":           "not a data query (configuration constant, no error result)",
}

type pools struct {
	u64  []uint64
	u32  []uint32
	hash []common.Hash
	str  []string
}

func poolsOf(w *world, blocks []blkSpec, extraHashes []common.Hash) pools {
	p := pools{u64: []uint64{0, 1, 1 << 40}, u32: []uint32{0, 1, 2, 3, 5, 1<<32 - 1}, str: []string{"", "0x0000000000000000000000000000000000000001"}}
	seen64 := map[uint64]bool{}
	add64 := func(x uint64) {
		if !seen64[x] {
			seen64[x] = true
			p.u64 = append(p.u64, x)
		}
	}
	for _, b := range blocks {
		add64(b.Num)
	}
	add64(w.tip + 1)
	add64(w.tip + 5)
	seen32 := map[uint32]bool{}
	add32 := func(x uint32) {
		if !seen32[x] {
			seen32[x] = true
			p.u32 = append(p.u32, x)
		}
	}
	if w.nextDC > 0 {
		add32(w.nextDC - 1)
		add32(w.nextDC / 2)
	}
	add32(w.nextDC)
	if n := len(w.infoLeaves); n > 0 {
		add32(uint32(n - 1))
		add32(uint32(n / 2))
		add32(uint32(n))
	}
	for id := range w.rollupVal {
		add32(id)
	}
	add32(w.gerIdx)
	seenH := map[common.Hash]bool{}
	addH := func(h common.Hash) {
		if !seenH[h] && len(p.hash) < 40 {
			seenH[h] = true
			p.hash = append(p.hash, h)
		}
	}
	addH(common.Hash{})
	pick := func(hs []common.Hash) {
		if len(hs) == 0 {
			return
		}
		addH(hs[len(hs)-1])
		addH(hs[0])
		addH(hs[len(hs)/2])
	}
	pick(w.exitRoots)
	pick(w.exitLeaves)
	pick(w.infoRoots)
	for i, l := range w.infoLeaves {
		if i == 0 || i == len(w.infoLeaves)-1 || i == len(w.infoLeaves)/2 {
			addH(l.GlobalExitRoot)
			addH(l.RollupExitRoot)
			addH(l.Hash)
		}
	}
	for i, v := range w.rollupHist {
		if i == 0 || i == len(w.rollupHist)-1 {
			addH(v.Root)
		}
	}
	for _, g := range sortedHashes(w.gerLive) {
		addH(g)
	}
	for _, h := range extraHashes {
		addH(h)
	}
	sort.Slice(p.u64, func(i, j int) bool { return p.u64[i] < p.u64[j] })
	sort.Slice(p.u32, func(i, j int) bool { return p.u32[i] < p.u32[j] })
	return p
}

type qcall struct {
	Method string
	Args   []reflect.Value
	Desc   string
}

func (p pools) values(t reflect.Type) []reflect.Value {
	var out []reflect.Value
	switch t {
	case tCtx:
		out = append(out, reflect.ValueOf(bg))
	case tU64:
		for _, x := range p.u64 {
			out = append(out, reflect.ValueOf(x))
		}
	case tU32:
		for _, x := range p.u32 {
			out = append(out, reflect.ValueOf(x))
		}
	case tHash:
		for _, x := range p.hash {
			out = append(out, reflect.ValueOf(x))
		}
	case tU64Ptr:
		out = append(out, reflect.ValueOf((*uint64)(nil)))
		for _, x := range p.u32 {
			if len(out) > 4 {
				break
			}
			v := uint64(x)
			out = append(out, reflect.ValueOf(&v))
		}
	case tU32s:
		out = append(out, reflect.ValueOf([]uint32(nil)), reflect.ValueOf([]uint32{0}), reflect.ValueOf([]uint32{7}), reflect.ValueOf([]uint32{1, 2}))
	case tStr:
		for _, x := range p.str {
			out = append(out, reflect.ValueOf(x))
		}
	default:
		return nil
	}
	return out
}

func descArg(v reflect.Value) string {
	switch x := v.Interface().(type) {
	case context.Context:
		return "ctx"
	case common.Hash:
		return x.Hex()[:10]
	case *uint64:
		if x == nil {
			return "nil"
		}
		return fmt.Sprintf("&%d", *x)
	default:
		return fmt.Sprint(x)
	}
}

// queryMethods lists the battery's methods of a facade: exported, not a Verif* hook, not excluded by name.
func queryMethods(facade any, onlyWithError bool) (names []string, skipped map[string]string) {
	return queryMethodsEx(facade, onlyWithError, batteryExcluded)
}

func queryMethodsEx(facade any, onlyWithError bool, excluded map[string]string) (names []string, skipped map[string]string) {
	skipped = map[string]string{}
	t := reflect.TypeOf(facade)
	for i := 0; i < t.NumMethod(); i++ {
		m := t.Method(i)
		if strings.HasPrefix(m.Name, "Verif") {
			continue
		}
		if why, ok := excluded[m.Name]; ok {
			skipped[m.Name] = why
			continue
		}
		if onlyWithError {
			n := m.Type.NumOut()
			if n == 0 || m.Type.Out(n-1) != tErr {
				skipped[m.Name] = "not a data query (no error result)"
				continue
			}
		}
		names = append(names, m.Name)
	}
	return
}

// buildBattery synthesises calls for every query method: the full cartesian product of the pools when it is small,
// otherwise `perMethod` combinations drawn from the generator.
func buildBattery(rt *rapid.T, facade any, p pools, perMethod int) []qcall {
	names, _ := queryMethods(facade, false)
	return buildBatteryFor(rt, facade, p, perMethod, names)
}

func buildBatteryFor(rt *rapid.T, facade any, p pools, perMethod int, names []string) []qcall {
	t := reflect.TypeOf(facade)
	var calls []qcall
	for _, name := range names {
		m, _ := t.MethodByName(name)
		nIn := m.Type.NumIn() - 1 // without receiver
		vals := make([][]reflect.Value, nIn)
		total := 1
		ok := true
		for i := 0; i < nIn; i++ {
			vals[i] = p.values(m.Type.In(i + 1))
			if len(vals[i]) == 0 {
				ok = false
				break
			}
			if total < 1<<20 {
				total *= len(vals[i])
			}
		}
		if !ok {
			panic(fmt.Sprintf("harness: no value pool for a parameter of %s (%s): extend battery_test.go", name, m.Type))
		}
		mk := func(idx []int) qcall {
			c := qcall{Method: name}
			var ds []string
			for i := 0; i < nIn; i++ {
				c.Args = append(c.Args, vals[i][idx[i]])
				ds = append(ds, descArg(vals[i][idx[i]]))
			}
			c.Desc = name + "(" + strings.Join(ds, ",") + ")"
			return c
		}
		if total <= perMethod {
			idx := make([]int, nIn)
			for {
				calls = append(calls, mk(append([]int{}, idx...)))
				i := nIn - 1
				for ; i >= 0; i-- {
					idx[i]++
					if idx[i] < len(vals[i]) {
						break
					}
					idx[i] = 0
				}
				if i < 0 {
					break
				}
			}
			continue
		}
		for k := 0; k < perMethod; k++ {
			idx := make([]int, nIn)
			for i := 0; i < nIn; i++ {
				if len(vals[i]) > 1 {
					idx[i] = rapid.IntRange(0, len(vals[i])-1).Draw(rt, "arg")
				}
			}
			calls = append(calls, mk(idx))
		}
	}
	return calls
}

type qresult struct {
	Out string // JSON of the non-error results
	Err string // error class
}

func errClass(err error) string {
	switch {
	case err == nil:
		return ""
	case errors.Is(err, aggkitsync.ErrInconsistentState):
		return "inconsistent"
	case errors.Is(err, aggkitdb.ErrNotFound), errors.Is(err, l1infotreesync.ErrNotFound), errors.Is(err, sql.ErrNoRows):
		return "notfound"
	case errors.Is(err, l1infotreesync.ErrBlockNotProcessed), strings.Contains(err.Error(), "not processed"):
		return "blocknotprocessed"
	default:
		return "other"
	}
}

func runCall(facade any, c qcall) (res qresult, rawErr error) {
	defer func() {
		if r := recover(); r != nil {
			res = qresult{Err: fmt.Sprintf("panic: %v", r)}
		}
	}()
	m := reflect.ValueOf(facade).MethodByName(c.Method)
	outs := m.Call(c.Args)
	var data []any
	for i, o := range outs {
		if i == len(outs)-1 && o.Type() == tErr {
			if !o.IsNil() {
				rawErr = o.Interface().(error)
				res.Err = errClass(rawErr)
			}
			continue
		}
		data = append(data, o.Interface())
	}
	b, err := json.Marshal(data)
	if err != nil {
		res.Out = "unmarshalable: " + err.Error()
	} else {
		res.Out = string(b)
	}
	return
}

// abandonQueries runs some of the calls with a context that the client cancels at a generated observation (an HTTP request
// abandoned while the node is answering it). The answers are not judged; what matters is the state the node is left in.
func abandonQueries(rt *rapid.T, facade any, calls []qcall) int {
	n := 0
	for _, c := range calls {
		if rapid.IntRange(0, 3).Draw(rt, "abandonThisQuery") != 0 {
			continue
		}
		args := append([]reflect.Value{}, c.Args...)
		has := false
		for i, a := range args {
			if a.Type().Implements(tCtx) || a.Type() == tCtx {
				args[i] = reflect.ValueOf(context.Context(newScriptedCtx(rapid.IntRange(1, 5).Draw(rt, "abandonAtObservation"))))
				has = true
			}
		}
		if !has {
			continue
		}
		_, _ = runCall(facade, qcall{Method: c.Method, Args: args, Desc: c.Desc})
		n++
	}
	return n
}

func runBattery(facade any, calls []qcall) []qresult {
	out := make([]qresult, len(calls))
	for i, c := range calls {
		out[i], _ = runCall(facade, c)
	}
	return out
}

// compareBattery returns a description of the first difference, and the name of the method it occurred in.
func compareBattery(calls []qcall, a, b []qresult, skipMethods map[string]bool) (string, string) {
	for i := range calls {
		if skipMethods[calls[i].Method] {
			continue
		}
		if a[i] != b[i] {
			return fmt.Sprintf("%s:\n   A -> %s err=%q\n   B -> %s err=%q", calls[i].Desc, clip(a[i].Out), a[i].Err, clip(b[i].Out), b[i].Err), calls[i].Method
		}
	}
	return "", ""
}

func clip(s string) string {
	if len(s) > 600 {
		return s[:600] + "…"
	}
	return s
}
