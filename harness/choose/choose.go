// Package choose abstracts "draw a decision" so that one property body can be driven either by
// rapid (random + shrinking) or by an odometer enumerator (exhaustive DFS over the choice tree).
package choose

import "pgregory.net/rapid"

type Chooser interface {
	// Int draws an integer in [lo, hi] (inclusive).
	Int(lo, hi int, label string) int
	Bool(label string) bool
}

// Rapid is the rapid-backed chooser.
type Rapid struct{ T *rapid.T }

func (r Rapid) Int(lo, hi int, label string) int { return rapid.IntRange(lo, hi).Draw(r.T, label) }
func (r Rapid) Bool(label string) bool           { return rapid.Bool().Draw(r.T, label) }

// Pick draws one element of a non-empty slice.
func Pick[T any](c Chooser, xs []T, label string) T { return xs[c.Int(0, len(xs)-1, label)] }

type choice struct{ v, n int }

// Enum is the exhaustive chooser: run the body, call Next, repeat until Next returns false.
type Enum struct {
	path []choice
	pos  int
	Log  []int // values drawn during the current run (for replay files)
}

func (e *Enum) Int(lo, hi int, label string) int {
	n := hi - lo + 1
	if n <= 0 {
		panic("choose.Enum: empty range for " + label)
	}
	if e.pos < len(e.path) {
		c := e.path[e.pos]
		if c.n != n {
			panic("choose.Enum: non-deterministic choice tree at " + label)
		}
		e.pos++
		e.Log = append(e.Log, lo+c.v)
		return lo + c.v
	}
	e.path = append(e.path, choice{0, n})
	e.pos++
	e.Log = append(e.Log, lo)
	return lo
}

func (e *Enum) Bool(label string) bool { return e.Int(0, 1, label) == 1 }

// Next advances to the next path of the choice tree; false when the tree is exhausted.
func (e *Enum) Next() bool {
	e.path = e.path[:e.pos]
	e.pos = 0
	e.Log = e.Log[:0]
	for len(e.path) > 0 {
		last := &e.path[len(e.path)-1]
		if last.v+1 < last.n {
			last.v++
			return true
		}
		e.path = e.path[:len(e.path)-1]
	}
	return false
}

// Replay is a chooser that replays a recorded list of values (saved enumerator failures).
type Replay struct {
	Vals []int
	pos  int
}

func (r *Replay) Int(lo, hi int, label string) int {
	if r.pos >= len(r.Vals) {
		return lo
	}
	v := r.Vals[r.pos]
	r.pos++
	if v < lo {
		v = lo
	}
	if v > hi {
		v = hi
	}
	return v
}
func (r *Replay) Bool(label string) bool { return r.Int(0, 1, label) == 1 }

// Bytes is a chooser driven by a byte string (structured decoder for native fuzz targets); it returns lo once exhausted.
type Bytes struct {
	Data []byte
	pos  int
}

func (b *Bytes) Int(lo, hi int, label string) int {
	n := hi - lo + 1
	if n <= 1 || b.pos >= len(b.Data) {
		return lo
	}
	v := int(b.Data[b.pos])
	b.pos++
	if n > 256 && b.pos < len(b.Data) {
		v = v<<8 | int(b.Data[b.pos])
		b.pos++
	}
	return lo + v%n
}
func (b *Bytes) Bool(label string) bool { return b.Int(0, 1, label) == 1 }
