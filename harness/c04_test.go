package harness

import (
	"errors"
	"fmt"
	"math/big"
	"os"
	"path/filepath"
	"sort"
	"sync"
	"testing"

	aggkitsync "github.com/agglayer/aggkit/sync"
	"github.com/ethereum/go-ethereum/common"
	"pgregory.net/rapid"

	"verifharness/ev"
)

// C04 — a reorg leaves the node exactly as if the dropped blocks had never been seen.

const c04Rule = "case = (store in {bridge, L1 info tree, injected GER}, generated event history with every event kind, 1-4 reorg points " +
	"in {0, first block, middle, tip, tip+1, tip+5} each followed by a generated new-fork continuation, optional restarts); " +
	"oracle = twin store that was only ever fed the surviving blocks (metamorphic), compared through a reflected query battery " +
	"and a table dump (all tables but the content-addressed *rht); non-trivial = a reorg that deletes >=1 block with >=1 event and " +
	"is followed by >=1 new-fork block with an event; distinct = hash of (store, per-block event kinds, reorg points)"

// destructive-delete model (findings F3/F4): rows keyed by (block,pos) that a removal event deletes regardless of block.
type rowKey struct{ blk, pos uint64 }

type destroyModel struct {
	rows map[rowKey]common.Hash // live rows -> the key a removal event matches on (address as hash / GER)
}

func newDestroyModel() *destroyModel { return &destroyModel{rows: map[rowKey]common.Hash{}} }

func (m *destroyModel) applyBlock(b blkSpec) {
	for _, e := range b.Evs {
		switch {
		case e.Legacy != nil:
			m.rows[rowKey{b.Num, e.Legacy.BlockPos}] = common.BytesToHash(e.Legacy.LegacyTokenAddress[:])
		case e.RmLeg != nil:
			for k, v := range m.rows {
				if v == common.BytesToHash(e.RmLeg.LegacyTokenAddress[:]) {
					delete(m.rows, k)
				}
			}
		case e.GER != nil && !e.GER.IsRemove:
			m.rows[rowKey{b.Num, 0}] = e.GER.GlobalExitRoot
		case e.GER != nil && e.GER.IsRemove:
			for k, v := range m.rows {
				if v == e.GER.GlobalExitRoot {
					delete(m.rows, k)
				}
			}
		}
	}
}

func (m *destroyModel) reorg(first uint64) {
	for k := range m.rows {
		if k.blk >= first {
			delete(m.rows, k)
		}
	}
}

func (m *destroyModel) keys() []string {
	var out []string
	for k := range m.rows {
		out = append(out, fmt.Sprintf("%d/%d", k.blk, k.pos))
	}
	sort.Strings(out)
	return out
}

func destroyTable(k storeKind) (table, method, sig, what string) {
	if k == kBridge {
		return "legacy_token_migration", "GetLegacyTokenMigrations",
			"store=bridge kind=destructive-delete-not-restored-by-reorg table=legacy_token_migration",
			"a RemoveLegacyToken event deletes legacy_token_migration rows of earlier blocks; reorging the removing block does not restore them"
	}
	return "imported_global_exit_root", "GetFirstGERAfterL1InfoTreeIndex",
		"store=ger kind=destructive-delete-not-restored-by-reorg table=imported_global_exit_root",
		"a GER removal event deletes imported_global_exit_root rows of earlier blocks; reorging the removing block does not restore them"
}

func tableKeys(path, table string, k storeKind) []string {
	d := rawDB(path)
	defer d.Close()
	q := "SELECT block_num, block_pos FROM " + table
	if k == kGER {
		q = "SELECT block_num, 0 FROM " + table
	}
	rows, err := d.Query(q)
	if err != nil {
		panic(err)
	}
	defer rows.Close()
	var out []string
	for rows.Next() {
		var a, b uint64
		_ = rows.Scan(&a, &b)
		out = append(out, fmt.Sprintf("%d/%d", a, b))
	}
	sort.Strings(out)
	return out
}

// twinCompare builds the twin of `survivors`, then compares A with it. It returns the twin (caller closes).
func twinCompare(rt *rapid.T, rec *ev.Recorder, k storeKind, A *store, survivors []blkSpec, buggy *destroyModel, extra []common.Hash, when string) *store {
	pathB, cleanupB := tmpDB("twin")
	_ = cleanupB // removed by the caller through closeTwin
	B, err := openStore(k, pathB)
	if err != nil {
		fatal(rt, "twin open: %v", err)
	}
	for _, b := range survivors {
		if err := B.process(b); err != nil {
			fatal(rt, "%s: twin store refused surviving block %s: %v", when, b.brief(), err)
		}
	}
	compareStores(rt, rec, k, A, B, survivors, buggy, extra, when)
	return B
}

func compareStores(rt *rapid.T, rec *ev.Recorder, k storeKind, A, B *store, survivors []blkSpec, buggy *destroyModel, extra []common.Hash, when string) {
	w := worldOf(k, survivors)
	correct := newDestroyModel()
	for _, b := range survivors {
		correct.applyBlock(b)
	}
	skipTables := []string{"rht"}
	skipMethods := map[string]bool{}
	if k != kL1Info && fmt.Sprint(buggy.keys()) != fmt.Sprint(correct.keys()) {
		// The known destructive-delete defect is predicted to manifest in this history. Check that A deviates exactly
		// as predicted (so that any other deviation is still reported), then exclude that table/query.
		table, method, sig, _ := destroyTable(k)
		got := tableKeys(A.path, table, k)
		if fmt.Sprint(got) != fmt.Sprint(buggy.keys()) {
			fatal(rt, "%s [%s]: table %s holds rows %v; surviving history implies %v (and the known destructive-delete defect would give %v)",
				when, k, table, got, correct.keys(), buggy.keys())
		}
		if !rec.IsKnown(sig) {
			fatal(rt, "%s [%s]: after the reorg table %s holds rows %v but a node that only saw the surviving blocks holds %v: "+
				"rows of earlier blocks deleted by a removal event in a dropped block were not restored [signature: %s]",
				when, k, table, got, correct.keys(), sig)
		}
		rec.Class("excluded_known_destructive_delete")
		skipTables = append(skipTables, table)
		skipMethods[method] = true
	}
	da, db := dumpTables(A.path, skipTables...), dumpTables(B.path, skipTables...)
	if d := diffDumps(da, db); d != "" {
		fatal(rt, "%s [%s]: stored tables differ from a node that only saw the surviving blocks:\n%s", when, k, d)
	}
	p := poolsOf(w, survivors, extra)
	calls := buildBattery(rt, A.facade(), p, 24)
	ra, rb := runBattery(A.facade(), calls), runBattery(B.facade(), calls)
	if d, _ := compareBattery(calls, ra, rb, skipMethods); d != "" {
		fatal(rt, "%s [%s]: query answers differ from a node that only saw the surviving blocks:\n %s", when, k, d)
	}
	rec.ClassN("queries_compared", len(calls))
}

func closeTwin(B *store) {
	if B != nil {
		B.close()
		_ = os.RemoveAll(filepath.Dir(B.path))
	}
}

func c04Prop(rt *rapid.T, rec *ev.Recorder) {
	k := storeKind(rapid.IntRange(0, 2).Draw(rt, "store"))
	opts := genOpts{withV2: true}
	n0 := rapid.IntRange(3, 12).Draw(rt, "nBase")
	base := genHistory(rt, k, nil, n0, opts)
	pathA, cleanupA := tmpDB("A")
	defer cleanupA()
	A, err := openStore(k, pathA)
	if err != nil {
		fatal(rt, "open: %v", err)
	}
	defer func() { A.close() }()
	buggy := newDestroyModel()
	for _, b := range base {
		if err := A.process(b); err != nil {
			fatal(rt, "store refused valid block %s: %v", b.brief(), err)
		}
		buggy.applyBlock(b)
	}
	survivors := append([]blkSpec{}, base...)
	key := fmt.Sprintf("%s|%v|", k, briefs(base))
	nontrivial := false
	nReorgs := rapid.IntRange(1, 4).Draw(rt, "nReorgs")
	var orphanHashes []common.Hash
	for r := 0; r < nReorgs; r++ {
		tip := uint64(0)
		if len(survivors) > 0 {
			tip = survivors[len(survivors)-1].Num
		}
		var pt uint64
		switch rapid.IntRange(0, 6).Draw(rt, "reorgKind") {
		case 0:
			pt = 0
		case 1:
			if len(survivors) > 0 {
				pt = survivors[0].Num
			}
		case 2:
			pt = tip
		case 3:
			pt = tip + 1
		case 4:
			pt = tip + 5
		default:
			if len(survivors) > 0 {
				pt = survivors[rapid.IntRange(0, len(survivors)-1).Draw(rt, "reorgAt")].Num
				if rapid.Bool().Draw(rt, "between") && pt > 0 {
					pt-- // a number between two processed blocks
				}
			}
		}
		var kept, dropped []blkSpec
		for _, b := range survivors {
			if b.Num < pt {
				kept = append(kept, b)
			} else {
				dropped = append(dropped, b)
			}
		}
		if rapid.IntRange(0, 2).Draw(rt, "abandonedQueriesBeforeReorg") == 0 {
			// clients abandon queries (cancelled request contexts) while the node serves them, right before the reorg
			calls := buildBattery(rt, A.facade(), poolsOf(worldOf(k, survivors), survivors, nil), 2)
			rec.ClassN("queries_abandoned_by_the_client_before_a_reorg", abandonQueries(rt, A.facade(), calls))
			key += "Q"
		}
		handled := false
		if rapid.IntRange(0, 2).Draw(rt, "faultDuringReorg") == 0 {
			// every row-writing statement of the reorg's own transaction fails in turn (K = 1, 2, ...): either Reorg reports
			// the failure and nothing has changed (the driver retries: next K), or it returns nil and then the reorg counts
			// as handled and is judged like any other. The enumeration ends when K exceeds what the reorg writes.
			inj := newFaultInjector(pathA)
			for kth := 1; kth <= 60 && !handled; kth++ {
				pre := dumpTables(pathA, faultTables)
				inj.armAbort(kth)
				ferr := A.reorg(pt)
				inj.disarm()
				if ferr == nil {
					handled = true
					rec.ClassN("reorg_attempts_failed_by_an_injected_fault", kth-1)
					break
				}
				if d := diffDumps(pre, dumpTables(pathA, faultTables)); d != "" {
					fatal(rt, "Reorg(%d) failed (statement writing row %d: %v) but left part of its work behind:\n%s", pt, kth, ferr, d)
				}
			}
			inj.exec("DROP TABLE vf_cnt")
			inj.close()
			key += "F"
			rec.Class("reorgs_with_fault_enumeration")
		}
		if !handled {
			// clients keep querying while the node handles the reorg (their answers are not judged: each is served from
			// some moment before, during or after it; what matters is the state the node is left in)
			var stopReaders chan struct{}
			var readersDone sync.WaitGroup
			if rapid.IntRange(0, 2).Draw(rt, "queriesDuringReorg") == 0 {
				calls := buildBattery(rt, A.facade(), poolsOf(worldOf(k, survivors), survivors, nil), 3)
				stopReaders = make(chan struct{})
				for g := 0; g < 2 && len(calls) > 0; g++ {
					readersDone.Add(1)
					go func(off int) {
						defer readersDone.Done()
						for i := off; ; i++ {
							select {
							case <-stopReaders:
								return
							default:
							}
							_, _ = runCall(A.facade(), calls[i%len(calls)])
						}
					}(g * 7)
				}
				key += "C"
				rec.Class("reorgs_with_concurrent_queries")
			}
			err := A.reorg(pt)
			if stopReaders != nil {
				close(stopReaders)
				readersDone.Wait()
			}
			if err != nil {
				fatal(rt, "Reorg(%d): %v", pt, err)
			}
		}
		buggy.reorg(pt)
		survivors = kept
		if rapid.IntRange(0, 3).Draw(rt, "restartAfterReorg") == 0 {
			if err := A.restart(); err != nil {
				fatal(rt, "restart: %v", err)
			}
			key += "R"
		}
		B := twinCompare(rt, rec, k, A, survivors, buggy, orphanHashes, fmt.Sprintf("after Reorg(%d) #%d", pt, r+1))
		if k == kBridge && rapid.IntRange(0, 4).Draw(rt, "holeOnTheNewFork") == 0 {
			// the new fork reaches the node with a hole: its first deposit is ahead of the count the surviving blocks end
			// with (deposits lost on the way - the situation the node's gap detection exists for). A node that only ever saw
			// the surviving blocks notices it and halts; so must this one. The size of the hole is drawn from 1..6 and from
			// the number of deposits the reorg has just removed.
			after := worldOf(k, kept).nextDC
			removed := worldOf(k, append(append([]blkSpec{}, kept...), dropped...)).nextDC - after
			gap := uint32(rapid.IntRange(1, 6).Draw(rt, "hole"))
			if removed > 0 && rapid.Bool().Draw(rt, "holeAsLargeAsWhatTheReorgRemoved") {
				gap = removed
			}
			wrong := after + gap
			if after > 0 {
				// ... or the first deposit count goes backwards: 0 again, or the count of the last surviving deposit
				switch rapid.IntRange(0, 3).Draw(rt, "backwards") {
				case 0:
					wrong = 0
				case 1:
					wrong = after - 1
				}
			}
			num := uint64(1)
			if len(kept) > 0 {
				num = kept[len(kept)-1].Num + 1
			}
			d := genBridge(rt)
			d.BlockNum, d.BlockPos, d.DepositCount = num, 0, wrong
			bad := blkSpec{Num: num, Hash: common.BigToHash(big.NewInt(int64(num) + 7777)), Evs: []evSpec{{Kind: "bridge", Bridge: &d}}}
			eb := B.process(bad)
			ea := A.process(bad)
			closeTwin(B)
			if !errors.Is(eb, aggkitsync.ErrInconsistentState) {
				fatal(rt, "INCONCLUSIVE: the twin accepted a deposit with count %d while it holds %d (%v)", wrong, after, eb)
			}
			if !errors.Is(ea, aggkitsync.ErrInconsistentState) {
				fatal(rt, "after Reorg(%d), which removed %d deposits, the new fork's first deposit arrives with count %d while the surviving blocks end at count %d: a node that only saw the surviving blocks reports the inconsistency (%v), this node's ProcessBlock returned %v", pt, removed, wrong, after, eb, ea)
			}
			rec.Class("new_fork_with_a_hole")
			if wrong < after {
				rec.Class("new_fork_whose_first_deposit_count_goes_backwards")
			} else if gap == removed {
				rec.Class("new_fork_with_a_hole_as_large_as_what_the_reorg_removed")
				nontrivial = true
			}
			key += fmt.Sprintf("reorg%d-%d/%d count%d for %d|", pt, len(dropped), len(kept), wrong, after)
			break
		}
		// new fork
		nCont := rapid.IntRange(0, 5).Draw(rt, "nCont")
		contOpts := opts
		for _, db := range dropped {
			contOpts.reuse = append(contOpts.reuse, db.Evs...)
		}
		cont := genHistory(rt, k, survivors, nCont, contOpts)
		for _, b := range cont {
			if err := A.process(b); err != nil {
				closeTwin(B)
				fatal(rt, "after Reorg(%d): store refused valid new-fork block %s: %v", pt, b.brief(), err)
			}
			buggy.applyBlock(b)
			if err := B.process(b); err != nil {
				closeTwin(B)
				fatal(rt, "twin refused new-fork block %s: %v", b.brief(), err)
			}
		}
		survivors = append(survivors, cont...)
		if len(cont) > 0 {
			compareStores(rt, rec, k, A, B, survivors, buggy, orphanHashes, fmt.Sprintf("after Reorg(%d) #%d and %d new-fork blocks", pt, r+1, len(cont)))
		}
		closeTwin(B)
		if hasEvents(dropped) && hasEvents(cont) {
			nontrivial = true
		}
		key += fmt.Sprintf("reorg%d-%d/%d%v|", pt, len(dropped), len(kept), briefs(cont))
	}
	rec.Case(nontrivial, key)
	rec.Class("store_" + k.String())
	if nontrivial && rec.WantSample() {
		rec.Sample(map[string]any{"store": k.String(), "history": key})
	}
}

func TestC04(t *testing.T) {
	rec := ev.For("C04", c04Rule)
	rec.Set("battery_exclusions", batteryExcluded)
	rapid.Check(t, func(rt *rapid.T) { c04Prop(rt, rec) })
}
