package harness

import (
	"context"
	"fmt"
	"math/big"
	"os"
	"sync"
	"testing"
	"time"

	cfgtypes "github.com/agglayer/aggkit/config/types"
	dbtypes "github.com/agglayer/aggkit/db/types"
	"github.com/agglayer/aggkit/l1infotreesync"
	"github.com/agglayer/aggkit/reorgdetector"
	aggkitsync "github.com/agglayer/aggkit/sync"
	aggkittypes "github.com/agglayer/aggkit/types"
	"github.com/ethereum/go-ethereum/common"
	"github.com/ethereum/go-ethereum/core/types"
	"github.com/ethereum/go-ethereum/crypto"
	"pgregory.net/rapid"

	"verifharness/ev"
	"verifharness/fakechain"
	"verifharness/ref"
)

// C06 — reorgs of processed blocks are detected; node converges to the canonical chain.

const c06Rule = "case = (base chain with L1 info update logs in generated blocks, finalized pointer lagging the tip, a list of fork " +
	"operations [fork point above the highest finalized block ever reported, new suffix with events added/removed/moved, longer " +
	"or shorter] each bound to a trigger 'when the node makes its k-th RPC' (a third of them applied atomically between two consecutive RPCs, optionally right before a query of the finalized block, with finality advancing onto the new fork at the same moment), tip growth between them, optional stop/restart of " +
	"reorg detector + syncer) through the real reorgdetector + public l1infotreesync.New (real downloader, driver, processor) on " +
	"the scripted chain; oracle = (1) once the chain stops changing and the node is idle, the stored leaves equal those of the " +
	"final canonical chain, (2) an isolated fork that replaced delivered blocks is followed by a recorded rewind at or before the " +
	"first replaced delivered block, (3) every recorded rewind concerns a tracked block that a fork really replaced; non-trivial = >=1 fork " +
	"that replaces >=1 delivered event block; distinct = hash of the case"

var (
	c06GER    = common.HexToAddress("0x6666666666666666666666666666666666666666")
	c06RM     = common.HexToAddress("0x7777777777777777777777777777777777777777")
	c06InfoV1 = crypto.Keccak256Hash([]byte("UpdateL1InfoTree(bytes32,bytes32)"))
	// a second syncer (generic EVM driver + downloader with a recording store) shares the reorg detector: it watches
	// another contract, so the two subscribers track different, interleaving sets of blocks
	c06Second      = common.HexToAddress("0x8888888888888888888888888888888888888888")
	c06SecondTopic = common.HexToHash("0x5ec0")
)

const c06SecondID = "c06second"

type c06Fork struct {
	At      int   // fork point = tip - At (clamped above the finalized frontier)
	Suffix  []int // per new block: number of info logs
	Trigger int   // applied when the node has made this many more RPCs after the previous operation
	Quiesce bool  // let the node go idle before this fork (isolated fork)
	Down    bool  // the node is stopped before the fork and restarted after it (and after the chain grew)
	PassFin bool  // with Down: the chain grows until finality has passed the fork point before the restart
	// Atomic: the fork happens between two consecutive RPCs of the node (applied inside the chain's RPC hook, right before
	// the Trigger-th next RPC - or, with OnFin, the Trigger-th next query of the finalized block - is served), the new
	// fork is at once at least as long as the old one and finality advances FinJump blocks beyond the fork point (-1: not at all)
	Atomic  bool
	OnFin   bool
	FinJump int
}

type c06Case struct {
	Base      []int // logs per block of the base chain
	FinLag    int
	Chunk     uint64
	Forks     []c06Fork
	Grow      []int  // blocks appended (with logs) after each fork
	RestartAt int    // -1 or RPC ordinal at which detector+syncer are stopped and restarted
	Second    bool   // a second syncer (its own contract, its own store) shares the reorg detector
	Chunk2    uint64 // chunk size configured from the first restart on (0: unchanged)
	// Safe: the syncers follow the "safe" block (the detector still tracks down to the finalized one); the safe pointer lags
	// the tip by SafeLag blocks and stays at or above the finalized block. Blocks between the two can still be replaced.
	Safe    bool
	SafeLag int
}

func c06Gen(rt *rapid.T) c06Case {
	var c c06Case
	n := rapid.IntRange(3, 25).Draw(rt, "nBase")
	for i := 0; i < n; i++ {
		c.Base = append(c.Base, rapid.SampledFrom([]int{0, 0, 1, 1, 2, 3, 3, 4}).Draw(rt, "logs"))
	}
	c.FinLag = rapid.IntRange(2, 10).Draw(rt, "finLag")
	c.Chunk = uint64(rapid.SampledFrom([]int{1, 2, 3, 5, 50}).Draw(rt, "chunk"))
	nf := rapid.IntRange(1, 4).Draw(rt, "nForks")
	for i := 0; i < nf; i++ {
		f := c06Fork{At: rapid.IntRange(0, 8).Draw(rt, "forkDepth"), Trigger: rapid.IntRange(0, 40).Draw(rt, "trigger"), Quiesce: rapid.Bool().Draw(rt, "isolated")}
		if rapid.IntRange(0, 3).Draw(rt, "whileDown") == 0 {
			f.Down, f.PassFin = true, rapid.Bool().Draw(rt, "finalityPassesFork")
		} else if rapid.IntRange(0, 2).Draw(rt, "betweenTwoRPCs") == 0 {
			f.Atomic, f.Quiesce = true, false
			f.OnFin = rapid.Bool().Draw(rt, "atFinalizedQuery")
			f.FinJump = rapid.IntRange(-1, 9).Draw(rt, "finalityJump")
			if f.OnFin {
				f.Trigger = rapid.IntRange(0, 12).Draw(rt, "triggerFin")
			}
		}
		for k, m := 0, rapid.IntRange(0, 8).Draw(rt, "suffixLen"); k < m; k++ {
			f.Suffix = append(f.Suffix, rapid.SampledFrom([]int{0, 1, 1, 2, 3, 3, 4}).Draw(rt, "suffixLogs"))
		}
		c.Forks = append(c.Forks, f)
		c.Grow = append(c.Grow, rapid.IntRange(0, 3).Draw(rt, "grow"))
	}
	c.Second = rapid.IntRange(0, 2).Draw(rt, "secondSyncer") > 0
	if rapid.IntRange(0, 2).Draw(rt, "newChunkAfterRestart") == 0 {
		c.Chunk2 = uint64(rapid.SampledFrom([]int{1, 2, 3, 5, 50}).Draw(rt, "chunk2"))
	}
	c.RestartAt = -1
	if rapid.IntRange(0, 3).Draw(rt, "restart") == 0 {
		c.RestartAt = rapid.IntRange(5, 150).Draw(rt, "restartAt")
	}
	if rapid.IntRange(0, 3).Draw(rt, "followSafeBlock") == 0 || os.Getenv("VERIF_C06_FORCE_SAFE") != "" {
		c.Safe, c.SafeLag = true, rapid.IntRange(0, 3).Draw(rt, "safeLag")
	}
	return c
}

var c06Seq uint64

// c06Logs: n%3 L1 info logs, plus one log of the second syncer's contract when n >= 3.
func c06Logs(n int) []types.Log {
	var out []types.Log
	if n >= 3 {
		c06Seq++
		out = append(out, types.Log{Address: c06Second, Topics: []common.Hash{c06SecondTopic, common.BigToHash(new(big.Int).SetUint64(c06Seq))}, Index: 0})
		n -= 3
	}
	base := len(out)
	for i := 0; i < n; i++ {
		c06Seq++
		mer := common.BigToHash(new(big.Int).SetUint64(c06Seq<<8 | 1))
		rer := common.BigToHash(new(big.Int).SetUint64(c06Seq<<8 | 2))
		out = append(out, types.Log{Address: c06GER, Topics: []common.Hash{c06InfoV1, mer, rer}, Index: uint(base + i)})
	}
	return out
}

type c06Leaf struct {
	Block    uint64
	MER, RER common.Hash
	Parent   common.Hash
	Ts       uint64
	Hash     common.Hash
}

// c06Expected: the leaves implied by the canonical chain up to the visible tip.
// c06Vis: the highest block the syncers may look at (their configured finality).
func c06Vis(ch *fakechain.Chain, safe bool) uint64 {
	if safe {
		return ch.SafeLocked()
	}
	return ch.LatestLocked()
}

func c06Expected(ch *fakechain.Chain, safe bool) []c06Leaf {
	ch.Lock()
	defer ch.Unlock()
	var out []c06Leaf
	for n := uint64(1); n <= c06Vis(ch, safe); n++ {
		h := ch.HeaderLocked(n)
		for _, l := range ch.LogsLocked(n) {
			if l.Address != c06GER {
				continue
			}
			lf := c06Leaf{Block: n, MER: l.Topics[1], RER: l.Topics[2], Parent: h.ParentHash, Ts: h.Time}
			lf.Hash = ref.L1InfoLeaf(ref.GER(lf.MER, lf.RER), lf.Parent, lf.Ts)
			out = append(out, lf)
		}
	}
	return out
}

func c06Compare(s *l1infotreesync.L1InfoTreeSync, want []c06Leaf) string {
	for i, w := range want {
		got, err := s.GetInfoByIndex(bg, uint32(i))
		if err != nil {
			return fmt.Sprintf("leaf %d (block %d) of the canonical chain is missing: %v", i, w.Block, err)
		}
		if got.BlockNumber != w.Block || got.MainnetExitRoot != w.MER || got.RollupExitRoot != w.RER || got.PreviousBlockHash != w.Parent || got.Timestamp != w.Ts || got.Hash != w.Hash {
			return fmt.Sprintf("leaf %d: stored (block %d, parent %s) differs from the canonical chain's (block %d, parent %s)", i, got.BlockNumber, got.PreviousBlockHash.Hex()[:10], w.Block, w.Parent.Hex()[:10])
		}
	}
	if _, err := s.GetInfoByIndex(bg, uint32(len(want))); err == nil {
		return fmt.Sprintf("the store holds more than the %d leaves of the canonical chain", len(want))
	}
	if len(want) > 0 {
		f := ref.Frontier{}
		for _, w := range want {
			f.Add(w.Hash)
		}
		r, err := s.GetLastL1InfoTreeRoot(bg)
		if err != nil || r.Hash != f.Root() {
			return fmt.Sprintf("last L1 info root %s (%v), canonical chain implies %s", r.Hash, err, f.Root())
		}
	}
	return ""
}

func deliveredBlocks(path string) map[uint64]common.Hash {
	d := rawDB(path)
	defer d.Close()
	out := map[uint64]common.Hash{}
	rows, err := d.Query("SELECT num, hash FROM block")
	if err != nil {
		return out
	}
	defer rows.Close()
	for rows.Next() {
		var n uint64
		var h *string
		if rows.Scan(&n, &h) == nil && h != nil {
			out[n] = common.HexToHash(*h)
		}
	}
	return out
}

func reorgEvents(path, sub string) []uint64 {
	evs, _ := reorgEventsFull(path, sub)
	return evs
}

// reorgEventsFull: the recorded rewinds (first block, tracked hash) of one subscriber ("" = all).
func reorgEventsFull(path, sub string) ([]uint64, []common.Hash) {
	d := rawDB(path)
	defer d.Close()
	rows, err := d.Query("SELECT from_block, tracked_hash FROM reorg_event WHERE subscriber_id = ? OR ? = '' ORDER BY rowid", sub, sub)
	if err != nil {
		return nil, nil
	}
	defer rows.Close()
	var out []uint64
	var hs []common.Hash
	for rows.Next() {
		var n uint64
		var h string
		_ = rows.Scan(&n, &h)
		out = append(out, n)
		hs = append(hs, common.HexToHash(h))
	}
	return out, hs
}

// c06Diag: which delivered blocks are off the canonical chain, and whether the detector still tracks them.
func c06Diag(storePath, rdPath string, chain *fakechain.Chain) string {
	out := ""
	d := rawDB(rdPath)
	defer d.Close()
	del := deliveredBlocks(storePath)
	chain.Lock()
	defer chain.Unlock()
	for n := uint64(1); n <= chain.TipLocked()+20; n++ {
		h, ok := del[n]
		if !ok {
			continue
		}
		canon := "none"
		if n <= chain.TipLocked() {
			if h == chain.HeaderLocked(n).Hash() {
				continue
			}
			canon = chain.HeaderLocked(n).Hash().Hex()[:10]
		}
		tr := []string{}
		if rows, err := d.Query("SELECT hash FROM tracked_block WHERE num = ?", n); err == nil {
			for rows.Next() {
				var x string
				_ = rows.Scan(&x)
				if len(x) > 10 {
					x = x[:10]
				}
				tr = append(tr, x)
			}
			rows.Close()
		}
		out += fmt.Sprintf("\n  delivered block %d has hash %s, canonical %s, tracked_block rows for it: %v", n, h.Hex()[:10], canon, tr)
	}
	return out
}

// c06Rec is the second subscriber's store (it outlives restarts, like a database file): the blocks it holds.
type c06Rec struct {
	mu     sync.Mutex
	kept   []aggkitsync.Block
	compat *aggkitsync.RuntimeData
}

func (r *c06Rec) GetLastProcessedBlock(context.Context) (uint64, error) {
	r.mu.Lock()
	defer r.mu.Unlock()
	if len(r.kept) == 0 {
		return 0, nil
	}
	return r.kept[len(r.kept)-1].Num, nil
}
func (r *c06Rec) ProcessBlock(_ context.Context, b aggkitsync.Block) error {
	r.mu.Lock()
	defer r.mu.Unlock()
	r.kept = append(r.kept, b)
	return nil
}
func (r *c06Rec) Reorg(_ context.Context, first uint64) error {
	r.mu.Lock()
	defer r.mu.Unlock()
	for len(r.kept) > 0 && r.kept[len(r.kept)-1].Num >= first {
		r.kept = r.kept[:len(r.kept)-1]
	}
	return nil
}
func (r *c06Rec) GetCompatibilityData(context.Context, dbtypes.Querier) (bool, aggkitsync.RuntimeData, error) {
	r.mu.Lock()
	defer r.mu.Unlock()
	if r.compat == nil {
		return false, aggkitsync.RuntimeData{}, nil
	}
	return true, *r.compat, nil
}
func (r *c06Rec) SetCompatibilityData(_ context.Context, _ dbtypes.Querier, d aggkitsync.RuntimeData) error {
	r.mu.Lock()
	defer r.mu.Unlock()
	r.compat = &d
	return nil
}
func (r *c06Rec) delivered() map[uint64]common.Hash {
	r.mu.Lock()
	defer r.mu.Unlock()
	out := map[uint64]common.Hash{}
	for _, b := range r.kept {
		out[b.Num] = b.Hash
	}
	return out
}

// c06CompareSecond: the second store holds exactly the canonical chain's blocks with a log of its contract (blocks without
// events that it holds as range markers must be canonical too).
func c06CompareSecond(r *c06Rec, ch *fakechain.Chain, safe bool) string {
	ch.Lock()
	defer ch.Unlock()
	visible := c06Vis(ch, safe)
	r.mu.Lock()
	defer r.mu.Unlock()
	have := map[uint64]aggkitsync.Block{}
	for _, b := range r.kept {
		if b.Num <= visible && b.Hash != (common.Hash{}) && b.Hash != ch.HeaderLocked(b.Num).Hash() {
			return fmt.Sprintf("second syncer: holds block %d with hash %s, canonical %s", b.Num, b.Hash.Hex()[:10], ch.HeaderLocked(b.Num).Hash().Hex()[:10])
		}
		if b.Num > visible {
			return fmt.Sprintf("second syncer: holds block %d beyond the canonical tip %d", b.Num, visible)
		}
		if len(b.Events) > 0 {
			have[b.Num] = b
		}
	}
	for n := uint64(1); n <= visible; n++ {
		want := 0
		for _, l := range ch.LogsLocked(n) {
			if l.Address == c06Second {
				want++
			}
		}
		if got := len(have[n].Events); got != want {
			return fmt.Sprintf("second syncer: block %d holds %d events, the canonical chain has %d", n, got, want)
		}
	}
	return ""
}

type c06Result struct {
	abandoned      int
	verdict        string
	inconcl        string
	nontrivial     bool
	forksDone      int
	replacedEv     int
	replacedSecond int
	atomicForks    int
}

func c06Run(c c06Case) (res c06Result) {
	// safeOf: where the safe pointer stands for a given tip and finalized block
	safeOf := func(tip, fin uint64) uint64 {
		if !c.Safe {
			return tip
		}
		s := fin
		if tip > uint64(c.SafeLag) && tip-uint64(c.SafeLag) > fin {
			s = tip - uint64(c.SafeLag)
		}
		return s
	}
	tipTag, finality := "latest", aggkittypes.LatestBlock
	if c.Safe {
		tipTag, finality = "safe", aggkittypes.SafeBlock
	}
	chain := fakechain.New()
	for _, n := range c.Base {
		chain.Extend(c06Logs(n))
	}
	setPtrs := func() {
		tip := chain.Tip()
		fin := uint64(0)
		if tip > uint64(c.FinLag) {
			fin = tip - uint64(c.FinLag)
		}
		if fin < chain.Finalized() {
			fin = chain.Finalized()
		}
		chain.SetPointers(tip, safeOf(tip, fin), fin)
	}
	setPtrs()
	var (
		mu          sync.Mutex
		rpcs        int
		sinceLog    int // tip polls since the last FilterLogs
		sweeps      int // detector sweeps since the last FilterLogs
		sweepsTotal int // all finalized-block queries so far (every detector sweep makes one)
		cancelFn    context.CancelFunc
		restarted   bool
		cancelledAt time.Time
		atomicLeft  int    // RPCs (or finalized queries) still to be served before the registered atomic fork
		atomicOnFin bool   // count finalized queries only
		atomicFn    func() // registered atomic fork (runs inside the hook: chain locked, mu held)
	)
	chain.Hook = func(ch *fakechain.Chain, call fakechain.Call) error {
		mu.Lock()
		defer mu.Unlock()
		rpcs++
		if c.RestartAt >= 0 && !restarted && rpcs >= c.RestartAt && cancelFn != nil {
			restarted = true
			cancelledAt = time.Now()
			cancelFn()
		}
		if atomicFn != nil && (!atomicOnFin || (call.Method == "HeaderByNumber" && call.Tag == "finalized")) {
			if atomicLeft <= 0 {
				fn := atomicFn
				atomicFn = nil
				fn()
			} else {
				atomicLeft--
			}
		}
		switch {
		case call.Method == "FilterLogs":
			sinceLog, sweeps = 0, 0
		case call.Method == "HeaderByNumber" && call.Tag == tipTag:
			sinceLog++
		case call.Method == "HeaderByNumber" && call.Tag == "finalized":
			sweeps++
			sweepsTotal++
		}
		return nil
	}
	storePath, cleanS := tmpDB("c06store")
	defer cleanS()
	rdPath := storePath + ".rd"
	var cur *l1infotreesync.L1InfoTreeSync
	rec2 := &c06Rec{}
	starts := 0
	start := func(ctx context.Context) (chan struct{}, error) {
		starts++
		if starts > 1 && c.Chunk2 > 0 {
			c.Chunk = c.Chunk2 // the operator changed the chunk size before restarting
		}
		rd, err := reorgdetector.New(chain, reorgdetector.Config{DBPath: rdPath, CheckReorgsInterval: cfgtypes.NewDuration(time.Millisecond), FinalizedBlock: aggkittypes.FinalizedBlock}, reorgdetector.L1)
		if err != nil {
			return nil, err
		}
		if err := rd.Start(ctx); err != nil {
			return nil, err
		}
		s, err := l1infotreesync.New(ctx, storePath, c06GER, c06RM, c.Chunk, finality, rd, chain, time.Millisecond, 0, time.Millisecond, -1,
			l1infotreesync.FlagAllowWrongContractsAddrs, aggkittypes.FinalizedBlock, false)
		if err != nil {
			return nil, err
		}
		cur = s
		var wg sync.WaitGroup
		wg.Add(1)
		go func() { s.Start(ctx); wg.Done() }()
		if c.Second {
			appender := aggkitsync.LogAppenderMap{c06SecondTopic: func(b *aggkitsync.EVMBlock, l types.Log) error {
				b.Events = append(b.Events, l.Topics[1])
				return nil
			}}
			rh := &aggkitsync.RetryHandler{RetryAfterErrorPeriod: time.Millisecond, MaxRetryAttemptsAfterError: -1}
			dl, err := aggkitsync.NewEVMDownloader(c06SecondID, chain, c.Chunk, finality, time.Millisecond, appender,
				[]common.Address{c06Second}, rh, aggkittypes.FinalizedBlock)
			if err != nil {
				return nil, err
			}
			drv, err := aggkitsync.NewEVMDriver(rd, rec2, dl, c06SecondID, 100, rh, false)
			if err != nil {
				return nil, err
			}
			wg.Add(1)
			go func() { drv.Sync(ctx); wg.Done() }()
		}
		done := make(chan struct{})
		go func() { wg.Wait(); close(done) }()
		return done, nil
	}
	ctx, cancel := context.WithCancel(context.Background())
	mu.Lock()
	cancelFn = cancel
	mu.Unlock()
	done, err := start(ctx)
	if err != nil {
		cancel()
		res.inconcl = "constructor: " + err.Error()
		return
	}
	defer func() {
		cancel()
		select {
		case <-done:
		case <-time.After(3 * time.Second):
			// handleReorg retries Reorg for ever on a cancelled context (observation O7): the instance is abandoned, as a
			// killed process would be; its goroutine only sleeps and fails to open transactions
			res.abandoned++
		}
	}()
	idle := func() bool {
		mu.Lock()
		defer mu.Unlock()
		return sinceLog >= 30 && sweeps >= 3
	}
	down := false         // the harness keeps the node stopped (fork while down)
	pump := func() bool { // handle a restart if the node stopped; false on failure
		if down {
			return true
		}
		stopped := false
		select {
		case <-done:
			stopped = true
		default:
			mu.Lock()
			hung := !cancelledAt.IsZero() && time.Since(cancelledAt) > 2*time.Second
			mu.Unlock()
			if hung {
				res.abandoned++ // see O7: Sync does not return when cancelled inside handleReorg
				stopped = true
			}
		}
		if stopped {
			mu.Lock()
			cancelledAt = time.Time{}
			mu.Unlock()
			ctx, cancel = context.WithCancel(context.Background())
			mu.Lock()
			cancelFn = cancel
			sinceLog, sweeps = 0, 0
			mu.Unlock()
			if done, err = start(ctx); err != nil {
				res.inconcl = "constructor after restart: " + err.Error()
				return false
			}
		}
		return true
	}
	// wedgedDetector: the detector queries the finalized block at the start of every sweep, once per millisecond; a running
	// node whose detector has made no sweep for 10 s can no longer notice a reorg
	wdSweeps, wdSince := -1, time.Now()
	wedgedDetector := func() bool {
		if down {
			wdSweeps, wdSince = -1, time.Now()
			return false
		}
		mu.Lock()
		n := sweepsTotal
		mu.Unlock()
		if n != wdSweeps {
			wdSweeps, wdSince = n, time.Now()
			return false
		}
		return time.Since(wdSince) > 10*time.Second
	}
	waitIdle := func(max time.Duration) bool {
		dl := time.Now().Add(max)
		for time.Now().Before(dl) {
			if !pump() {
				return false
			}
			if idle() {
				return true
			}
			if wedgedDetector() {
				res.verdict = "the node keeps running but its reorg detector has not made a sweep for 10 s: it is wedged and cannot notice any further reorg" + c06Diag(storePath, rdPath, chain)
				return false
			}
			time.Sleep(300 * time.Microsecond)
		}
		return false
	}
	waitRPCs := func(n int) {
		mu.Lock()
		target := rpcs + n
		mu.Unlock()
		dl := time.Now().Add(2 * time.Second)
		for time.Now().Before(dl) {
			mu.Lock()
			r := rpcs
			mu.Unlock()
			if r >= target || !pump() {
				return
			}
			time.Sleep(100 * time.Microsecond)
		}
	}
	replacedHashes := map[common.Hash]bool{} // every block hash that a fork took off the canonical chain
	maxTip := chain.Tip()
	for i, f := range c.Forks {
		isolated := f.Quiesce && !f.Down
		if f.Down {
			// stop the node (as a process stop), fork while it is down
			waitRPCs(f.Trigger)
			down = true
			mu.Lock()
			cancelledAt = time.Now()
			mu.Unlock()
			cancel()
			select {
			case <-done:
			case <-time.After(2 * time.Second):
				res.abandoned++
			}
		}
		if isolated {
			if !waitIdle(60 * time.Second) {
				if res.inconcl == "" && res.verdict == "" {
					res.inconcl = "node did not go idle before an isolated fork within 60s"
				}
				return
			}
		} else {
			waitRPCs(f.Trigger)
		}
		type subState struct {
			id           string
			delivered    map[uint64]common.Hash
			eventsBefore int
			first, last  uint64 // first / last delivered block that this fork replaces (0: none)
		}
		var (
			at, newTip uint64
			newVis     uint64 // what the syncers can see of the new fork
			old        = map[uint64]common.Hash{}
			subs       []*subState
		)
		// applyLocked performs the fork (chain locked): strictly above the highest finalized block ever reported
		applyLocked := func() {
			tip := chain.TipLocked()
			floor := chain.MaxFinalizedReported
			if fl := chain.FinalizedLocked(); fl > floor {
				floor = fl
			}
			at = 0
			if tip >= uint64(f.At) {
				at = tip - uint64(f.At)
			}
			if at <= floor {
				at = floor + 1
			}
			if at > tip+1 {
				at = tip + 1
			}
			if tip > maxTip {
				maxTip = tip
			}
			for n := at; n <= tip; n++ {
				old[n] = chain.HeaderLocked(n).Hash()
				replacedHashes[old[n]] = true
			}
			subs = []*subState{{id: "l1InfoTreeSyncer", delivered: deliveredBlocks(storePath)}}
			if c.Second {
				subs = append(subs, &subState{id: c06SecondID, delivered: rec2.delivered()})
			}
			for _, sb := range subs {
				sb.eventsBefore = len(reorgEvents(rdPath, sb.id))
			}
			var suffix [][]types.Log
			for _, n := range f.Suffix {
				suffix = append(suffix, c06Logs(n))
			}
			if at <= tip || len(suffix) > 0 {
				chain.ForkLocked(at, suffix)
			}
			if f.Atomic {
				// the canonical chain is at once longer than the fork it replaces ...
				for chain.TipLocked() <= maxTip+uint64(c.SafeLag) {
					chain.ExtendLocked(nil)
				}
			}
			newTip = chain.TipLocked()
			fin := chain.FinalizedLocked()
			if f.Atomic && f.FinJump >= 0 {
				// ... and finality moves on (to a block of the new fork) before the node's next RPC
				if j := at + uint64(f.FinJump); j > fin {
					fin = j
				}
				if fin > newTip {
					fin = newTip
				}
			}
			chain.SetPointersLocked(newTip, safeOf(newTip, fin), fin)
			newVis = newTip
			if c.Safe {
				newVis = safeOf(newTip, fin)
			}
		}
		if f.Atomic {
			fired := make(chan struct{})
			mu.Lock()
			atomicLeft, atomicOnFin = f.Trigger, f.OnFin
			atomicFn = func() { applyLocked(); close(fired) }
			mu.Unlock()
			ok := false
			for dl := time.Now().Add(5 * time.Second); time.Now().Before(dl) && !ok && pump(); {
				select {
				case <-fired:
					ok = true
				case <-time.After(300 * time.Microsecond):
				}
			}
			if !ok {
				mu.Lock()
				still := atomicFn != nil
				atomicFn = nil
				mu.Unlock()
				if still {
					continue // the node made too few RPCs (stopped or halted): this fork does not happen
				}
				<-fired
			}
			res.atomicForks++
		} else {
			chain.Lock()
			applyLocked()
			chain.Unlock()
		}
		res.forksDone++
		for _, sb := range subs {
			for n, h := range sb.delivered {
				if oh, ok := old[n]; ok && oh == h {
					if sb.first == 0 || n < sb.first {
						sb.first = n
					}
					if n > sb.last {
						sb.last = n
					}
				}
			}
			if sb.first != 0 {
				res.replacedEv++
				res.nontrivial = true
				if sb.id == c06SecondID {
					res.replacedSecond++
				}
			}
		}
		for _, sb := range subs {
			// the detector compares tracked blocks with the headers the chain serves now: while the new fork is shorter than a
			// replaced delivered block the node cannot know about the reorg yet (the final convergence check still applies)
			if !(isolated && sb.first != 0 && newVis >= sb.last) {
				continue
			}
			// (2) the syncer must be rewound at or before the first replaced delivered block.
			// A detector sweep that straddles the fork sees old headers for the first blocks and new ones for the rest, and
			// reports the rest first; what matters is that the syncer ends up rewound to at or before the first replaced
			// block. A missing (or too shallow) rewind is only reported if it stays so for 3 s of idleness.
			var evs []uint64
			lowest := uint64(0)
			missingSince := time.Time{}
			dl := time.Now().Add(90 * time.Second)
			for {
				mu.Lock()
				sinceLog, sweeps = 0, 0
				mu.Unlock()
				if !waitIdle(60 * time.Second) {
					if res.inconcl == "" && res.verdict == "" {
						res.inconcl = "node did not go idle after an isolated fork within 60s"
					}
					return
				}
				evs = reorgEvents(rdPath, sb.id)
				lowest = 0
				if len(evs) > sb.eventsBefore {
					lowest = evs[sb.eventsBefore]
					for _, e := range evs[sb.eventsBefore:] {
						if e < lowest {
							lowest = e
						}
					}
					if lowest <= sb.first {
						break
					}
				}
				if missingSince.IsZero() {
					missingSince = time.Now()
				}
				if time.Since(missingSince) > 3*time.Second || time.Now().After(dl) {
					break
				}
			}
			if len(evs) <= sb.eventsBefore {
				res.verdict = fmt.Sprintf("fork #%d replaced block %d delivered to subscriber %s; the node stayed idle for 3 s of polls and detector sweeps but no rewind was recorded", i+1, sb.first, sb.id) + c06Diag(storePath, rdPath, chain)
				return
			}
			if lowest > sb.first {
				res.verdict = fmt.Sprintf("fork #%d replaced block %d delivered to subscriber %s but it was rewound to block %d only (rewinds since the fork: %v) and stayed idle for 3 s", i+1, sb.first, sb.id, lowest, evs[sb.eventsBefore:]) + c06Diag(storePath, rdPath, chain)
				return
			}
		}
		for k := 0; k < c.Grow[i]; k++ {
			chain.Extend(c06Logs(int(c06Seq % 5)))
		}
		// a canonical chain keeps growing: the new fork soon becomes longer than the one it replaced
		for chain.Tip() <= maxTip+uint64(c.SafeLag) {
			chain.Extend(nil)
		}
		if f.Down && f.PassFin {
			for chain.Tip() < at+uint64(c.FinLag)+1 {
				chain.Extend(nil)
			}
		}
		setPtrs()
		if f.Down {
			down = false
			mu.Lock()
			cancelledAt = time.Time{}
			sinceLog, sweeps = 0, 0
			mu.Unlock()
			ctx, cancel = context.WithCancel(context.Background())
			mu.Lock()
			cancelFn = cancel
			mu.Unlock()
			if done, err = start(ctx); err != nil {
				res.inconcl = "constructor after restart: " + err.Error()
				return
			}
		}
	}
	// a canonical chain keeps growing: the final chain is at least as long as any fork the node has seen
	for chain.Tip() <= maxTip+uint64(c.SafeLag) {
		chain.Extend(nil)
	}
	setPtrs()
	// the chain stops changing: (1) convergence
	deadline := time.Now().Add(120 * time.Second)
	var diff string
	var idleSince time.Time
	lastRPCs, lastRPCMove := -1, time.Now()
	lastSweeps, lastSweepMove := -1, time.Now()
	for {
		if !pump() {
			return
		}
		if idle() {
			diff = c06Compare(cur, c06Expected(chain, c.Safe))
			if diff == "" && c.Second {
				diff = c06CompareSecond(rec2, chain, c.Safe)
			}
			if diff == "" {
				break
			}
			if idleSince.IsZero() {
				idleSince = time.Now()
			}
			if time.Since(idleSince) > 3*time.Second {
				res.verdict = "the chain stopped changing and the node is idle, but " + diff + c06Diag(storePath, rdPath, chain)
				return
			}
		} else {
			idleSince = time.Time{}
		}
		mu.Lock()
		nowRPCs, nowSweeps := rpcs, sweepsTotal
		mu.Unlock()
		if nowSweeps != lastSweeps {
			lastSweeps, lastSweepMove = nowSweeps, time.Now()
		} else if time.Since(lastSweepMove) > 10*time.Second {
			// the detector queries the finalized block at the start of every sweep, once per millisecond
			res.verdict = "the chain stopped changing and the node keeps polling the tip, but its reorg detector has not made a sweep for 10 s: it is wedged and cannot notice any further reorg" + c06Diag(storePath, rdPath, chain)
			return
		}
		if nowRPCs != lastRPCs {
			lastRPCs, lastRPCMove = nowRPCs, time.Now()
		} else if time.Since(lastRPCMove) > 10*time.Second {
			// a running node polls the tip and sweeps its tracked blocks every millisecond
			res.verdict = "the chain stopped changing, but the node has not made a single RPC for 10 s (no tip poll, no detector sweep): it is wedged and cannot notice any further reorg" + c06Diag(storePath, rdPath, chain)
			return
		}
		if time.Now().After(deadline) {
			res.inconcl = "node did not become idle within 120s after the last fork"
			return
		}
		time.Sleep(500 * time.Microsecond)
	}
	// (3) no spurious rewind: every recorded rewind is for a tracked block whose hash a fork really replaced
	anyDown := false // a stop between the notification and the removal of the tracked range legitimately repeats the rewind
	for _, f := range c.Forks {
		anyDown = anyDown || f.Down
	}
	for _, sub := range []string{"l1InfoTreeSyncer", c06SecondID} {
		evs, tracked := reorgEventsFull(rdPath, sub)
		seenTracked := map[common.Hash]int{}
		for k, e := range evs {
			seenTracked[tracked[k]]++
			if seenTracked[tracked[k]] > 1 && c.RestartAt < 0 && !anyDown {
				res.verdict = fmt.Sprintf("subscriber %s was rewound to block %d more than once for the same replaced block version %s: the second rewind had nothing new to undo", sub, e, tracked[k].Hex()[:12])
				return
			}
			if !replacedHashes[tracked[k]] {
				res.verdict = fmt.Sprintf("a rewind of subscriber %s to block %d was recorded for tracked hash %s, but no fork ever replaced a block with that hash", sub, e, tracked[k].Hex()[:12])
				return
			}
		}
	}
	return
}

func TestC06(t *testing.T) {
	rec := ev.For("C06", c06Rule)
	rec.Assume("forks happen strictly above the highest finalized block the L1 client ever reported (the tracker's own assumption)")
	rec.Assume("the harness owns the chain and the RPC rendez-vous points but not the Go scheduler inside the node")
	rapid.Check(t, func(rt *rapid.T) {
		c := c06Gen(rt)
		res := c06Run(c)
		if res.inconcl != "" {
			rt.Fatalf("INCONCLUSIVE: %s\ncase: %+v", res.inconcl, c)
		}
		rec.Case(res.nontrivial, fmt.Sprintf("%+v", c))
		rec.ClassN("forks_applied", res.forksDone)
		rec.ClassN("forks_applied_between_two_consecutive_RPCs_of_the_node", res.atomicForks)
		rec.ClassN("forks_replacing_delivered_blocks", res.replacedEv)
		rec.ClassN("forks_replacing_blocks_of_the_second_syncer", res.replacedSecond)
		if c.Second {
			rec.Class("with_second_syncer_on_the_same_detector")
		}
		if c.RestartAt >= 0 {
			rec.Class("with_restart")
		}
		if res.nontrivial && rec.WantSample() {
			rec.Sample(c)
		}
		if res.verdict != "" {
			rt.Fatalf("%s\ncase: %+v", res.verdict, c)
		}
	})
}
