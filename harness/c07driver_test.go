package harness

import (
	"context"
	"database/sql"
	"fmt"
	"testing"
	"time"

	"github.com/agglayer/aggkit/l1infotreesync"
	aggkittypes "github.com/agglayer/aggkit/types"
	"pgregory.net/rapid"

	"verifharness/ev"
	"verifharness/fakechain"
)

// C07, driver-level leg: "no later block is ever recorded while an earlier one is missing" is a statement about the store AND
// the driver that feeds it. The public l1infotreesync.New (real downloader, EVM driver, processor) follows a scripted, final
// chain; while the node is syncing, the storage refuses the tree root of one block's leaf (a BEFORE INSERT trigger keyed on
// that block number, installed from a second connection before the node starts and removed a moment after the node reached
// the block). Whatever the processor reports for the failed attempts, once the storage works again the node must end with
// exactly the leaves of the chain - the faulted block included, in its place.

func c07dRun(rt *rapid.T) (verdict, inconcl string, nontrivial bool) {
	chain := fakechain.New()
	nBlocks := rapid.IntRange(3, 14).Draw(rt, "nBlocks")
	var eventBlocks []uint64
	for i := 0; i < nBlocks; i++ {
		n := rapid.SampledFrom([]int{0, 1, 1, 2, 2}).Draw(rt, "infoLogs")
		b := chain.Extend(c06Logs(n))
		if n > 0 {
			eventBlocks = append(eventBlocks, b)
		}
	}
	if len(eventBlocks) == 0 {
		return "", "", false
	}
	tip := chain.Tip()
	chain.SetPointers(tip, tip, tip)
	k := rapid.IntRange(0, len(eventBlocks)-1).Draw(rt, "faultedBlock")
	target := eventBlocks[k]
	// ... or the storage refuses the row of a block itself - any block, also one without events (the node records the last
	// block of every range it has fetched)
	onBlockRow := rapid.IntRange(0, 2).Draw(rt, "faultOnTheBlockRow") == 0
	chunk := uint64(rapid.SampledFrom([]int{1, 3, 100}).Draw(rt, "chunk"))
	var twinBlocks []uint64
	if onBlockRow {
		// what a node that meets no fault records for this chain and chunk size
		var tw string
		if twinBlocks, tw = c07dTwinBlocks(chain, chunk, tip); tw != "" {
			return "", "twin: " + tw, false
		}
		target = uint64(rapid.IntRange(1, int(tip)).Draw(rt, "faultedBlockNumber"))
		var eventless []uint64
		for _, b := range twinBlocks {
			isEv := false
			for _, e := range eventBlocks {
				isEv = isEv || e == b
			}
			if !isEv && b > 0 {
				eventless = append(eventless, b)
			}
		}
		if len(eventless) > 0 && rapid.IntRange(0, 3).Draw(rt, "faultOnAnEventlessRecordedBlock") != 0 {
			target = rapid.SampledFrom(eventless).Draw(rt, "eventlessBlock")
			c07dEventless++
		}
		k = 0
		for k < len(eventBlocks)-1 && eventBlocks[k] < target {
			k++
		}
	}
	storePath, clean := tmpDB("c07d")
	defer clean()
	// create the schema, then install the fault
	pre, err := l1infotreesync.NewVerif(storePath)
	if err != nil {
		return "", "open: " + err.Error(), false
	}
	_ = pre.VerifClose()
	d := rawDB(storePath)
	defer d.Close()
	what := "the tree root"
	if onBlockRow {
		what = "the block row"
	}
	trg := fmt.Sprintf(`CREATE TRIGGER vf_drv BEFORE INSERT ON l1_info_root WHEN NEW.block_num = %d BEGIN SELECT RAISE(ABORT, 'verif injected storage fault'); END`, target)
	if onBlockRow {
		trg = fmt.Sprintf(`CREATE TRIGGER vf_drv BEFORE INSERT ON block WHEN NEW.num = %d BEGIN SELECT RAISE(ABORT, 'verif injected storage fault'); END`, target)
	}
	if _, err := d.Exec(trg); err != nil {
		return "", "trigger: " + err.Error(), false
	}
	ctx, cancel := context.WithCancel(context.Background())
	defer cancel()
	s, err := l1infotreesync.New(ctx, storePath, c06GER, c06RM, chunk, aggkittypes.LatestBlock, noReorgs{}, chain, time.Millisecond, 0, time.Millisecond, -1,
		l1infotreesync.FlagAllowWrongContractsAddrs, aggkittypes.FinalizedBlock, false)
	if err != nil {
		return "", "constructor: " + err.Error(), false
	}
	done := make(chan struct{})
	go func() { s.Start(ctx); close(done) }()
	defer func() {
		cancel()
		select {
		case <-done:
		case <-time.After(10 * time.Second):
		}
	}()
	// let the node reach the faulted block (everything before it is recorded), give it a few attempts, then repair the storage
	before := uint64(0)
	if k > 0 {
		before = eventBlocks[k-1]
	}
	reached := time.Now().Add(5 * time.Second)
	for time.Now().Before(reached) {
		if n, err := s.GetLastProcessedBlock(bg); err == nil && n >= before {
			break
		}
		time.Sleep(200 * time.Microsecond)
	}
	time.Sleep(time.Duration(rapid.IntRange(2, 30).Draw(rt, "faultLastsMillis")) * time.Millisecond)
	if n, err := s.GetLastProcessedBlock(bg); err == nil && n < target {
		c07dBlocking++ // the node was held up by the fault when it was repaired
	}
	dropped := false
	for dl := time.Now().Add(5 * time.Second); time.Now().Before(dl); {
		if _, err := d.Exec(`DROP TRIGGER IF EXISTS vf_drv`); err == nil {
			dropped = true
			break
		}
		time.Sleep(time.Millisecond)
	}
	if !dropped {
		return "", "could not remove the injected fault within 5s (database busy)", false
	}
	// the storage works again: the node must end with the chain's leaves. A node that stops advancing below the tip for ten
	// seconds - or reaches it with other content - is judged.
	last, lastMove := uint64(0), time.Now()
	for {
		n, err := s.GetLastProcessedBlock(bg)
		if err == nil && n >= tip {
			break
		}
		if err == nil && n != last {
			last, lastMove = n, time.Now()
		}
		if time.Since(lastMove) > 10*time.Second {
			return fmt.Sprintf("the storage refused %s of block %d for a moment; ten seconds after it was repaired the syncer still stands at block %d of %d (error of the last query: %v)", what, target, last, tip, err), "", true
		}
		time.Sleep(time.Millisecond)
	}
	if diff := c06Compare(s, c06Expected(chain, false)); diff != "" {
		return fmt.Sprintf("the storage refused %s of block %d for a moment (chunk %d, %d later event blocks); after it was repaired the node reached the tip, but %s", what, target, chunk, len(eventBlocks)-1-k, diff), "", true
	}
	if onBlockRow {
		got := c07dBlockRows(d)
		if fmt.Sprint(got) != fmt.Sprint(twinBlocks) {
			return fmt.Sprintf("the storage refused the row of block %d for a moment (chunk %d); after it was repaired the node reached the tip with block rows %v, a node that met no fault records %v", target, chunk, got, twinBlocks), "", true
		}
		c07dBlockRowFaults++
		return "", "", true
	}
	return "", "", len(eventBlocks)-1-k >= 1
}

var c07dBlockRowFaults, c07dEventless int

func c07dBlockRows(d interface {
	Query(string, ...any) (*sql.Rows, error)
}) []uint64 {
	rows, err := d.Query(`SELECT num FROM block ORDER BY num`)
	if err != nil {
		panic(err)
	}
	defer rows.Close()
	var out []uint64
	for rows.Next() {
		var n uint64
		if err := rows.Scan(&n); err != nil {
			panic(err)
		}
		out = append(out, n)
	}
	return out
}

// c07dTwinBlocks runs the same public syncer on the same chain without any fault and returns the block rows it ends with.
func c07dTwinBlocks(chain *fakechain.Chain, chunk, tip uint64) ([]uint64, string) {
	storePath, clean := tmpDB("c07dt")
	defer clean()
	ctx, cancel := context.WithCancel(context.Background())
	s, err := l1infotreesync.New(ctx, storePath, c06GER, c06RM, chunk, aggkittypes.LatestBlock, noReorgs{}, chain, time.Millisecond, 0, time.Millisecond, -1,
		l1infotreesync.FlagAllowWrongContractsAddrs, aggkittypes.FinalizedBlock, false)
	if err != nil {
		cancel()
		return nil, "constructor: " + err.Error()
	}
	done := make(chan struct{})
	go func() { s.Start(ctx); close(done) }()
	stop := func() {
		cancel()
		select {
		case <-done:
		case <-time.After(10 * time.Second):
		}
	}
	for dl := time.Now().Add(30 * time.Second); ; {
		if n, err := s.GetLastProcessedBlock(bg); err == nil && n >= tip {
			break
		}
		if time.Now().After(dl) {
			stop()
			return nil, "did not reach the tip within 30 s"
		}
		time.Sleep(time.Millisecond)
	}
	stop()
	d := rawDB(storePath)
	defer d.Close()
	return c07dBlockRows(d), ""
}

var c07dBlocking int

func TestC07Driver(t *testing.T) {
	rec := ev.For("C07", c07Rule)
	rec.Set("driver_level_leg", "1 in 8 cases of the budget: public l1infotreesync.New on a scripted final chain; the storage refuses the L1 info tree root of one block (trigger keyed on the block number) until a moment after the node reached it; oracle = after the repair the node ends with exactly the chain's leaves (no later block recorded while the faulted one is missing)")
	rapid.Check(t, func(rt *rapid.T) {
		if rapid.IntRange(0, 7).Draw(rt, "runDriverLeg") != 0 {
			return
		}
		verdict, inconcl, nt := c07dRun(rt)
		if inconcl != "" {
			fatal(rt, "INCONCLUSIVE: %s", inconcl)
		}
		if verdict != "" {
			rt.Fatalf("[driver] %s", verdict)
		}
		rec.Case(nt, "driver")
		rec.Class("driver_level_cases")
		rec.Set("driver_level_cases_in_which_the_fault_was_holding_the_node_when_it_was_repaired", c07dBlocking)
		rec.Set("driver_level_cases_with_the_fault_on_a_block_row_compared_with_a_fault_free_twin", c07dBlockRowFaults)
		rec.Set("driver_level_cases_with_the_fault_on_the_row_of_an_eventless_block", c07dEventless)
	})
}

var _ = fakechain.New
