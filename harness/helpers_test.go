package harness

import (
	"context"
	"database/sql"
	"fmt"
	"math/big"
	"os"
	"path/filepath"
	"sort"
	"strings"
	"sync/atomic"

	"github.com/agglayer/aggkit/bridgesync"
	"github.com/ethereum/go-ethereum/common"
	"github.com/ethereum/go-ethereum/crypto"
	_ "github.com/mattn/go-sqlite3"
	"pgregory.net/rapid"

	"verifharness/ref"
)

var bg = context.Background()

var tmpSeq atomic.Uint64

// tmpDB returns a fresh database path (fresh directory) and a cleanup function.
func tmpDB(name string) (string, func()) {
	dir, err := os.MkdirTemp("", fmt.Sprintf("vdb%d-", tmpSeq.Add(1)))
	if err != nil {
		panic(err)
	}
	return filepath.Join(dir, name+".sqlite"), func() { _ = os.RemoveAll(dir) }
}

// rawDB opens a second, plain connection to a store's database file (fault triggers, dumps, pre-states).
func rawDB(path string) *sql.DB {
	d, err := sql.Open("sqlite3", "file:"+path+"?_busy_timeout=250&_foreign_keys=on")
	if err != nil {
		panic(err)
	}
	d.SetMaxOpenConns(1)
	return d
}

// dumpTables returns a canonical text dump of every user table except those whose name has one of the given suffixes.
func dumpTables(path string, skipSuffix ...string) map[string][]string {
	d := rawDB(path)
	defer d.Close()
	rows, err := d.Query(`SELECT name FROM sqlite_master WHERE type='table' AND name NOT LIKE 'sqlite_%' ORDER BY name`)
	if err != nil {
		panic(err)
	}
	var names []string
	for rows.Next() {
		var n string
		_ = rows.Scan(&n)
		names = append(names, n)
	}
	rows.Close()
	out := map[string][]string{}
	for _, n := range names {
		skip := n == "gorp_migrations" || strings.HasPrefix(n, "vf_")
		for _, s := range skipSuffix {
			if strings.HasSuffix(n, s) {
				skip = true
			}
		}
		if skip {
			continue
		}
		r, err := d.Query("SELECT * FROM " + n)
		if err != nil {
			panic(err)
		}
		cols, _ := r.Columns()
		var lines []string
		for r.Next() {
			vals := make([]any, len(cols))
			ptrs := make([]any, len(cols))
			for i := range vals {
				ptrs[i] = &vals[i]
			}
			_ = r.Scan(ptrs...)
			var sb strings.Builder
			for i, v := range vals {
				if b, ok := v.([]byte); ok {
					fmt.Fprintf(&sb, "%s=%x|", cols[i], b)
				} else {
					fmt.Fprintf(&sb, "%s=%v|", cols[i], v)
				}
			}
			lines = append(lines, sb.String())
		}
		r.Close()
		sort.Strings(lines)
		out[n] = lines
	}
	return out
}

func diffDumps(a, b map[string][]string) string {
	keys := map[string]bool{}
	for k := range a {
		keys[k] = true
	}
	for k := range b {
		keys[k] = true
	}
	var ks []string
	for k := range keys {
		ks = append(ks, k)
	}
	sort.Strings(ks)
	for _, k := range ks {
		x, y := a[k], b[k]
		if len(x) != len(y) {
			return fmt.Sprintf("table %s: %d rows vs %d rows\n A=%v\n B=%v", k, len(x), len(y), trunc(x), trunc(y))
		}
		for i := range x {
			if x[i] != y[i] {
				return fmt.Sprintf("table %s row %d:\n A=%s\n B=%s", k, i, x[i], y[i])
			}
		}
	}
	return ""
}

func trunc(x []string) []string {
	if len(x) > 6 {
		return append(append([]string{}, x[:6]...), "...")
	}
	return x
}

// ---- field generators shared by the bridge-store checks -------------------------------------

var (
	genNet  = rapid.OneOf(rapid.SampledFrom([]uint32{0, 1, 2, 1 << 31, 1<<32 - 1}), rapid.Uint32())
	genAddr = rapid.OneOf(
		rapid.SampledFrom([]common.Address{{}, common.HexToAddress("0xffffffffffffffffffffffffffffffffffffffff"), common.HexToAddress("0x01")}),
		rapid.Custom(func(t *rapid.T) common.Address {
			return common.BytesToAddress(rapid.SliceOfN(rapid.Byte(), 20, 20).Draw(t, "addr"))
		}))
	genHash = rapid.Custom(func(t *rapid.T) common.Hash {
		return common.BytesToHash(rapid.SliceOfN(rapid.Byte(), 32, 32).Draw(t, "hash"))
	})
	maxU256   = new(big.Int).Sub(new(big.Int).Lsh(big.NewInt(1), 256), big.NewInt(1))
	genAmount = rapid.OneOf(
		rapid.SampledFrom([]*big.Int{big.NewInt(0), big.NewInt(1), new(big.Int).Lsh(big.NewInt(1), 64), new(big.Int).Lsh(big.NewInt(1), 255), maxU256}),
		rapid.Custom(func(t *rapid.T) *big.Int {
			return new(big.Int).SetBytes(rapid.SliceOfN(rapid.Byte(), 0, 32).Draw(t, "amt"))
		}))
	genMeta = rapid.OneOf(
		rapid.Just([]byte(nil)), rapid.Just([]byte{}),
		rapid.SliceOfN(rapid.Byte(), 1, 1), rapid.SliceOfN(rapid.Byte(), 31, 33), rapid.SliceOfN(rapid.Byte(), 1, 300),
		rapid.Custom(func(t *rapid.T) []byte {
			n := rapid.IntRange(1024, 4096).Draw(t, "metaLen")
			b := make([]byte, n)
			seed := rapid.Byte().Draw(t, "metaSeed")
			for i := range b {
				b[i] = seed + byte(i*7)
			}
			return b
		}))
)

// genBridge draws a bridge (deposit) event without position information.
func genBridge(t *rapid.T) bridgesync.Bridge {
	return bridgesync.Bridge{
		LeafType:           uint8(rapid.IntRange(0, 1).Draw(t, "leafType")),
		OriginNetwork:      genNet.Draw(t, "origNet"),
		OriginAddress:      genAddr.Draw(t, "origAddr"),
		DestinationNetwork: genNet.Draw(t, "destNet"),
		DestinationAddress: genAddr.Draw(t, "destAddr"),
		Amount:             new(big.Int).Set(genAmount.Draw(t, "amount")),
		Metadata:           genMeta.Draw(t, "metadata"),
		FromAddress:        genAddr.Draw(t, "from"),
		TxHash:             genHash.Draw(t, "tx"),
		Calldata:           rapid.SliceOfN(rapid.Byte(), 0, 8).Draw(t, "calldata"),
		IsNativeToken:      rapid.Bool().Draw(t, "native"),
	}
}

// genBridgeOrRepeat draws a fresh deposit or, one time in five, repeats the fields of an earlier one: the contract's leaf
// value does not include the deposit count, so two identical deposits (same user, token, amount, destination) have the
// same leaf hash at different positions of the tree.
func genBridgeOrRepeat(t *rapid.T, prev []bridgesync.Bridge) bridgesync.Bridge {
	if len(prev) > 0 && rapid.IntRange(0, 4).Draw(t, "repeatEarlierDeposit") == 0 {
		p := prev[rapid.IntRange(0, len(prev)-1).Draw(t, "repeatWhich")]
		d := p
		d.Amount, d.Metadata, d.Calldata = cpBig(p.Amount), cpBytes(p.Metadata), cpBytes(p.Calldata)
		return d
	}
	return genBridge(t)
}

// isExtremeBridge classifies field extremes for the non-triviality rules.
func isExtremeBridge(b bridgesync.Bridge) bool {
	return b.Amount.Sign() == 0 || b.Amount.Cmp(maxU256) == 0 || len(b.Metadata) == 0 || len(b.Metadata) >= 1024 ||
		b.OriginNetwork == 1<<32-1 || b.DestinationNetwork == 1<<32-1
}

// refBridgeLeaf is the contract's leaf value of a deposit.
func refBridgeLeaf(b bridgesync.Bridge) common.Hash {
	return ref.BridgeLeaf(b.LeafType, b.OriginNetwork, b.OriginAddress, b.DestinationNetwork, b.DestinationAddress,
		b.Amount, crypto.Keccak256Hash(b.Metadata))
}

func sameBridge(a, b bridgesync.Bridge) string {
	switch {
	case a.BlockNum != b.BlockNum || a.BlockPos != b.BlockPos:
		return fmt.Sprintf("position (%d,%d) vs (%d,%d)", a.BlockNum, a.BlockPos, b.BlockNum, b.BlockPos)
	case a.DepositCount != b.DepositCount:
		return fmt.Sprintf("deposit count %d vs %d", a.DepositCount, b.DepositCount)
	case a.LeafType != b.LeafType, a.OriginNetwork != b.OriginNetwork, a.OriginAddress != b.OriginAddress,
		a.DestinationNetwork != b.DestinationNetwork, a.DestinationAddress != b.DestinationAddress:
		return "leaf type/networks/addresses"
	case a.Amount.Cmp(b.Amount) != 0:
		return fmt.Sprintf("amount %s vs %s", a.Amount, b.Amount)
	case string(a.Metadata) != string(b.Metadata):
		return fmt.Sprintf("metadata %x vs %x", a.Metadata, b.Metadata)
	case a.FromAddress != b.FromAddress, a.TxHash != b.TxHash, string(a.Calldata) != string(b.Calldata),
		a.BlockTimestamp != b.BlockTimestamp, a.IsNativeToken != b.IsNativeToken:
		return "from/tx/calldata/timestamp/native"
	}
	return ""
}

// fatal fails the case, except for file-descriptor exhaustion (aggkit's RunMigrations leaks one *sql.DB per store
// constructor call; long shrink phases can hit the fd limit): that is not a verdict about the property, the case is skipped.
func fatal(rt *rapid.T, format string, a ...any) {
	msg := fmt.Sprintf(format, a...)
	if strings.Contains(msg, "too many open files") {
		rt.Skip("fd limit reached: " + msg)
	}
	rt.Fatalf("%s", msg)
}
