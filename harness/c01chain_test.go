package harness

import (
	"context"
	"fmt"
	"testing"
	"time"

	"github.com/0xPolygon/cdk-contracts-tooling/contracts/pp/l2-sovereign-chain/polygonzkevmbridgev2"
	"github.com/agglayer/aggkit/bridgesync"
	aggkittypes "github.com/agglayer/aggkit/types"
	"github.com/ethereum/go-ethereum/common"
	"github.com/ethereum/go-ethereum/core/types"
	"github.com/ethereum/go-ethereum/crypto"
	"pgregory.net/rapid"

	"verifharness/ev"
	"verifharness/fakechain"
	"verifharness/ref"
)

// C01, scripted-chain leg: the public bridgesync.NewL1 (real downloader with its BridgeEvent handler, driver, processor)
// follows a scripted chain whose blocks carry ABI-packed BridgeEvent logs. What the EVM leg cannot produce without a
// helper contract is generated here: transactions that make SEVERAL deposits (a router, bridge-and-call), transactions
// that emit other logs before or between their deposits (log index != transaction index), several such transactions in
// one block. The stored deposits, their leaves and the exit root after each of them are compared with the reference
// frontier (which the EVM leg ties to the real contract).

var c01BridgeSig = crypto.Keccak256Hash([]byte("BridgeEvent(uint8,uint32,address,uint32,address,uint256,bytes,uint32)"))

var c01ChainBridge = common.HexToAddress("0xb01d9e00000000000000000000000000000000b1")

func c01EventData(b bridgesync.Bridge) []byte {
	a, err := polygonzkevmbridgev2.Polygonzkevmbridgev2MetaData.GetAbi()
	if err != nil {
		panic(err)
	}
	d, err := a.Events["BridgeEvent"].Inputs.Pack(b.LeafType, b.OriginNetwork, b.OriginAddress, b.DestinationNetwork, b.DestinationAddress, b.Amount, b.Metadata, b.DepositCount)
	if err != nil {
		panic(err)
	}
	return d
}

type c01Frame struct {
	From  common.Address `json:"from"`
	To    common.Address `json:"to"`
	Input string         `json:"input"`
	Value string         `json:"value"`
	Calls []*c01Frame    `json:"calls,omitempty"`
}

func TestC01Chain(t *testing.T) {
	rec := ev.For("C01", c01Rule)
	rec.Set("scripted_chain_leg", "1 in 25 cases of the budget: 1-15 blocks with 0-3 transactions each, every transaction making 1-3 deposits (BridgeEvent logs packed with the contract ABI, other logs of the same transaction before or between them) through the public bridgesync.NewL1 on the scripted chain; oracle = stored deposits (position = log index, every field), their leaves and the exit root after each deposit equal the reference")
	rapid.Check(t, func(rt *rapid.T) {
		if rapid.IntRange(0, 24).Draw(rt, "runScriptedChain") != 0 {
			return
		}
		chain := fakechain.New()
		var want []bridgesync.Bridge
		var prev []bridgesync.Bridge
		multi := false
		nBlocks := rapid.IntRange(1, 15).Draw(rt, "nBlocks")
		txSeq := 0
		for b := 1; b <= nBlocks; b++ {
			var logs []types.Log
			logIdx := uint(0)
			nTx := rapid.SampledFrom([]int{0, 1, 1, 2, 3}).Draw(rt, "txsInBlock")
			for ti := 0; ti < nTx; ti++ {
				txSeq++
				txHash := crypto.Keccak256Hash([]byte{0xc1, byte(txSeq), byte(txSeq >> 8)})
				sender := common.BytesToAddress([]byte{0x5e, byte(txSeq)})
				nDep := rapid.SampledFrom([]int{1, 1, 2, 3}).Draw(rt, "depositsInTx")
				if nDep > 1 {
					multi = true
				}
				for k := 0; k < nDep; k++ {
					// logs of other contracts emitted by the same transaction (token transfers, ...): not returned by the
					// node's filtered query, but they take log indexes
					logIdx += uint(rapid.SampledFrom([]int{0, 0, 1, 2}).Draw(rt, "otherLogsBefore"))
					d := genBridgeOrRepeat(rt, prev)
					d.BlockNum, d.BlockPos, d.DepositCount = uint64(b), uint64(logIdx), uint32(len(want))
					d.TxHash, d.FromAddress = txHash, sender
					prev = append(prev, d)
					want = append(want, d)
					logs = append(logs, types.Log{Address: c01ChainBridge, Topics: []common.Hash{c01BridgeSig}, Data: c01EventData(d),
						TxHash: txHash, TxIndex: uint(ti), Index: logIdx})
					logIdx++
				}
				// the transaction calls a router which calls the bridge
				chain.SetTrace(txHash, &c01Frame{From: sender, To: common.BytesToAddress([]byte{0x40, 0x07}), Input: "0xdeadbeef", Value: "0x0",
					Calls: []*c01Frame{{From: common.BytesToAddress([]byte{0x40, 0x07}), To: c01ChainBridge, Input: "0xcd586579", Value: "0x0"}}})
			}
			chain.Extend(logs)
		}
		tip := chain.Tip()
		chain.SetPointers(tip, tip, tip)
		path, clean := tmpDB("c01chain")
		defer clean()
		ctx, cancel := context.WithCancel(bg)
		defer cancel()
		s, err := bridgesync.NewL1(ctx, path, c01ChainBridge, uint64(rapid.SampledFrom([]int{1, 3, 100}).Draw(rt, "chunk")), aggkittypes.LatestBlock, noReorgs{}, chain, 0,
			time.Millisecond, time.Millisecond, -1, 0, false, false)
		if err != nil {
			fatal(rt, "INCONCLUSIVE: NewL1: %v", err)
		}
		done := make(chan struct{})
		go func() { s.Start(ctx); close(done) }()
		defer func() {
			cancel()
			select {
			case <-done:
			case <-time.After(30 * time.Second):
			}
		}()
		// the whole chain is final, so the syncer's marker reaches the tip; a syncer that stops advancing below it for ten
		// seconds (it retries a block it cannot store, every millisecond) has refused a valid chain
		last, lastMove := uint64(0), time.Now()
		for {
			n, err := s.GetLastProcessedBlock(bg)
			if err == nil && n >= tip {
				break
			}
			if err == nil && n != last {
				last, lastMove = n, time.Now()
			}
			if time.Since(lastMove) > 10*time.Second {
				rt.Fatalf("[scripted chain] the syncer stopped advancing at block %d of %d for 10 s although the chain is valid and final (%d deposits, transactions with several deposits: %v)", last, tip, len(want), multi)
			}
			time.Sleep(time.Millisecond)
		}
		got, err := s.GetBridges(bg, 0, tip)
		if err != nil {
			rt.Fatalf("GetBridges: %v", err)
		}
		if len(got) != len(want) {
			rt.Fatalf("[scripted chain] the chain has %d deposits, the node serves %d", len(want), len(got))
		}
		var f ref.Frontier
		for i, w := range want {
			g := got[i]
			if g.BlockNum != w.BlockNum || g.BlockPos != w.BlockPos || g.DepositCount != w.DepositCount || g.TxHash != w.TxHash {
				rt.Fatalf("[scripted chain] deposit %d is served at block %d position %d (count %d), its event is log %d of block %d", i, g.BlockNum, g.BlockPos, g.DepositCount, w.BlockPos, w.BlockNum)
			}
			if g.Hash() != refBridgeLeaf(w) {
				rt.Fatalf("[scripted chain] deposit %d: the node's leaf differs from the contract's leaf value of the event's fields", i)
			}
			f.Add(refBridgeLeaf(w))
			r, err := s.GetExitRootByIndex(bg, uint32(i))
			if err != nil || r.Hash != f.Root() {
				rt.Fatalf("[scripted chain] exit root after deposit %d: node %s (%v), contract algorithm %s", i, r.Hash, err, f.Root())
			}
		}
		rec.Case(multi && len(want) >= 2, fmt.Sprintf("chain|%d|%d|%v", nBlocks, len(want), multi))
		rec.Class("scripted_chain_cases")
		if multi {
			rec.Class("scripted_chain_cases_with_several_deposits_in_one_transaction")
		}
	})
}
