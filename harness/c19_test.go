package harness

import (
	"bytes"
	"context"
	"fmt"
	"math/big"
	"sync"
	"testing"

	nodetypes "buf.build/gen/go/agglayer/agglayer/protocolbuffers/go/agglayer/node/types/v1"
	nodev1 "buf.build/gen/go/agglayer/agglayer/protocolbuffers/go/agglayer/node/v1"
	interop "buf.build/gen/go/agglayer/interop/protocolbuffers/go/agglayer/interop/types/v1"
	proverv1 "buf.build/gen/go/agglayer/provers/protocolbuffers/go/aggkit/prover/v1"
	agglayertypes "github.com/agglayer/aggkit/agglayer/types"
	"github.com/agglayer/aggkit/aggsender/flows"
	"github.com/agglayer/aggkit/aggsender/optimistic/optimistichash"
	aggsendertypes "github.com/agglayer/aggkit/aggsender/types"
	"github.com/agglayer/aggkit/bridgesync"
	"github.com/agglayer/aggkit/log"
	"github.com/ethereum/go-ethereum/common"
	"github.com/ethereum/go-ethereum/crypto"
	"pgregory.net/rapid"

	"verifharness/ev"
	"verifharness/grpcfake"
	"verifharness/ref"
)

// C19 — global indexes are encoded and decoded consistently everywhere.

const c19Rule = "case = (mainnet flag, rollup index, leaf index); the encoder/decoder are compared with the big-int bit-layout " +
	"formula and the value is read back from every carrier (imported bridge exit, PP/FEP commitment, Agglayer wire message and " +
	"prover request through the real gRPC clients, optimistic commitment); non-trivial = minimal byte length of the encoded value " +
	"is not 4, 8 or 9 (the lengths the decoder special-cases trivially) or the mainnet flag is set with a non-zero rollup index " +
	"supplied (then also: a mainnet claim whose on-chain index carries those rollup bits must be carried as one and the same value by the PP/FEP commitments, the wire message and the prover request); distinct = the triple"

func le32(x *big.Int) []byte {
	be := make([]byte, 32)
	x.FillBytes(be)
	out := make([]byte, 32)
	for i := 0; i < 32; i++ {
		out[i] = be[31-i]
	}
	return out
}

func refExitHash(be *agglayertypes.BridgeExit) common.Hash {
	mh := common.BytesToHash(crypto.Keccak256(nil))
	if len(be.Metadata) > 0 {
		mh = common.BytesToHash(be.Metadata)
	}
	return ref.BridgeLeaf(uint8(be.LeafType), be.TokenInfo.OriginNetwork, be.TokenInfo.OriginTokenAddress,
		be.DestinationNetwork, be.DestinationAddress, be.Amount, mh)
}

type c19Wire struct {
	mu     sync.Mutex
	srv    *grpcfake.Server
	submit *nodev1.SubmitCertificateRequest
	prove  *proverv1.GenerateAggchainProofRequest
}

var (
	c19wOnce sync.Once
	c19w     *c19Wire
	c19wErr  error
)

func c19WireGet() (*c19Wire, error) {
	c19wOnce.Do(func() {
		w := &c19Wire{srv: &grpcfake.Server{}}
		w.srv.Submit = func(r *nodev1.SubmitCertificateRequest) (*nodev1.SubmitCertificateResponse, error) {
			w.mu.Lock()
			w.submit = r
			w.mu.Unlock()
			return &nodev1.SubmitCertificateResponse{CertificateId: &nodetypes.CertificateId{Value: &interop.FixedBytes32{Value: make([]byte, 32)}}}, nil
		}
		w.srv.Prove = func(r *proverv1.GenerateAggchainProofRequest) (*proverv1.GenerateAggchainProofResponse, error) {
			w.mu.Lock()
			w.prove = r
			w.mu.Unlock()
			return &proverv1.GenerateAggchainProofResponse{
				AggchainProof: &interop.AggchainProof{
					AggchainParams: &interop.FixedBytes32{Value: make([]byte, 32)},
					Proof:          &interop.AggchainProof_Sp1Stark{Sp1Stark: &interop.SP1StarkProof{Version: "v", Proof: []byte{1}, Vkey: []byte{2}}},
				},
				LocalExitRootHash: &interop.FixedBytes32{Value: make([]byte, 32)},
			}, nil
		}
		c19wErr = w.srv.Start()
		c19w = w
	})
	return c19w, c19wErr
}

// c19Check verifies one triple. wire=false skips the two gRPC carriers (used by the native fuzz target).
func c19Check(flag bool, rollup, leaf uint32, wire bool) error {
	if flag && rollup != 0 {
		if err := c19Stray(rollup, leaf, wire); err != nil {
			return err
		}
	}
	x := ref.GlobalIndex(flag, rollup, leaf)
	wantRollup := rollup
	if flag {
		wantRollup = 0
	}
	// encoder has the contract's bit layout
	g := bridgesync.GenerateGlobalIndex(flag, rollup, leaf)
	if g.Cmp(x) != 0 {
		return fmt.Errorf("GenerateGlobalIndex(%v,%d,%d)=0x%x, bit layout says 0x%x", flag, rollup, leaf, g, x)
	}
	// round trip
	f2, r2, l2, err := bridgesync.DecodeGlobalIndex(g)
	if err != nil || f2 != flag || r2 != wantRollup || l2 != leaf {
		return fmt.Errorf("Decode(Generate(%v,%d,%d)) = (%v,%d,%d,%v)", flag, rollup, leaf, f2, r2, l2, err)
	}
	// decode of the canonical on-chain value equals its bit fields
	bf, br, bl := ref.SplitGlobalIndex(x)
	f3, r3, l3, err := bridgesync.DecodeGlobalIndex(new(big.Int).Set(x))
	if err != nil || f3 != bf || r3 != br || l3 != bl {
		return fmt.Errorf("Decode(0x%x) = (%v,%d,%d,%v), bit fields (%v,%d,%d)", x, f3, r3, l3, err, bf, br, bl)
	}
	// carrier 1: the certificate's imported bridge exit built from a claim with the on-chain value
	claim := bridgesync.Claim{
		BlockNum: 7, GlobalIndex: new(big.Int).Set(x), OriginNetwork: 3, OriginAddress: common.HexToAddress("0x11"),
		DestinationAddress: common.HexToAddress("0x22"), DestinationNetwork: 5, Amount: big.NewInt(9),
	}
	bf0 := flows.NewBaseFlow(log.WithFields("module", "c19"), nil, nil, nil, nil, flows.NewBaseFlowConfigDefault())
	ibe, err := bf0.ConvertClaimToImportedBridgeExit(claim)
	if err != nil {
		return fmt.Errorf("ConvertClaimToImportedBridgeExit: %v", err)
	}
	if ibe.GlobalIndex.MainnetFlag != bf || ibe.GlobalIndex.RollupIndex != br || ibe.GlobalIndex.LeafIndex != bl {
		return fmt.Errorf("certificate carries %+v for on-chain value 0x%x (%v,%d,%d)", *ibe.GlobalIndex, x, bf, br, bl)
	}
	// carrier 2: signed commitments (little-endian 32 bytes)
	le := le32(x)
	if !bytes.Equal(ibe.GlobalIndexToLittleEndianBytes(), le) {
		return fmt.Errorf("GlobalIndexToLittleEndianBytes=%x want %x", ibe.GlobalIndexToLittleEndianBytes(), le)
	}
	if ibe.GlobalIndex.Hash() != crypto.Keccak256Hash(le) {
		return fmt.Errorf("GlobalIndex.Hash mismatch for 0x%x", x)
	}
	var dummy agglayertypes.MerkleProof
	l1leaf := &agglayertypes.L1InfoTreeLeaf{Inner: &agglayertypes.L1InfoTreeLeafInner{}}
	if bf {
		ibe.ClaimData = &agglayertypes.ClaimFromMainnnet{ProofLeafMER: &dummy, ProofGERToL1Root: &dummy, L1Leaf: l1leaf}
	} else {
		ibe.ClaimData = &agglayertypes.ClaimFromRollup{ProofLeafLER: &dummy, ProofLERToRER: &dummy, ProofGERToL1Root: &dummy, L1Leaf: l1leaf}
	}
	cert := &agglayertypes.Certificate{NetworkID: 5, Height: 4, NewLocalExitRoot: common.HexToHash("0x77"),
		ImportedBridgeExits: []*agglayertypes.ImportedBridgeExit{ibe},
		AggchainData:        &agglayertypes.AggchainDataSignature{Signature: make([]byte, 65)}}
	exitHash := refExitHash(ibe.BridgeExit)
	wantPP := crypto.Keccak256Hash(cert.NewLocalExitRoot.Bytes(), crypto.Keccak256(crypto.Keccak256(le)))
	if cert.PPHashToSign() != wantPP {
		return fmt.Errorf("PP commitment does not carry 0x%x", x)
	}
	wantFEP := crypto.Keccak256Hash(cert.NewLocalExitRoot.Bytes(), crypto.Keccak256(append(append([]byte{}, le...), exitHash.Bytes()...)),
		[]byte{4, 0, 0, 0, 0, 0, 0, 0}, crypto.Keccak256(nil))
	if cert.FEPHashToSign() != wantFEP {
		return fmt.Errorf("FEP commitment does not carry 0x%x", x)
	}
	// the commitments carry EVERY claim's own global index: a second claim with another index, in both orders
	claim2 := claim
	claim2.GlobalIndex = ref.GlobalIndex(!flag, rollup^1, leaf+1)
	ibe2, err := bf0.ConvertClaimToImportedBridgeExit(claim2)
	if err != nil {
		return fmt.Errorf("ConvertClaimToImportedBridgeExit: %v", err)
	}
	ibe2.ClaimData = ibe.ClaimData
	le2, exitHash2 := le32(claim2.GlobalIndex), refExitHash(ibe2.BridgeExit)
	for _, order := range [][2]int{{0, 1}, {1, 0}} {
		ibes := []*agglayertypes.ImportedBridgeExit{ibe, ibe2}
		les, ehs := [][]byte{le, le2}, []common.Hash{exitHash, exitHash2}
		c2 := &agglayertypes.Certificate{NetworkID: 5, Height: 4, NewLocalExitRoot: common.HexToHash("0x77"),
			ImportedBridgeExits: []*agglayertypes.ImportedBridgeExit{ibes[order[0]], ibes[order[1]]},
			AggchainData:        &agglayertypes.AggchainDataSignature{Signature: make([]byte, 65)}}
		var ppChunks, fepChunks [][]byte
		for _, k := range order {
			ppChunks = append(ppChunks, crypto.Keccak256(les[k]))
			fepChunks = append(fepChunks, append(append([]byte{}, les[k]...), ehs[k].Bytes()...))
		}
		if c2.PPHashToSign() != crypto.Keccak256Hash(c2.NewLocalExitRoot.Bytes(), crypto.Keccak256(ppChunks...)) {
			return fmt.Errorf("PP commitment over two claims (order %v) does not carry 0x%x and 0x%x", order, x, claim2.GlobalIndex)
		}
		if c2.FEPHashToSign() != crypto.Keccak256Hash(c2.NewLocalExitRoot.Bytes(), crypto.Keccak256(fepChunks...), []byte{4, 0, 0, 0, 0, 0, 0, 0}, crypto.Keccak256(nil)) {
			return fmt.Errorf("FEP commitment over two claims (order %v) does not carry 0x%x and 0x%x", order, x, claim2.GlobalIndex)
		}
		cl := []bridgesync.Claim{claim, claim2}
		if got := optimistichash.CalculateCommitImportedBrdigeExitsHashFromClaims([]bridgesync.Claim{cl[order[0]], cl[order[1]]}); got != crypto.Keccak256Hash(fepChunks...) {
			return fmt.Errorf("optimistic commitment over two claims (order %v) does not carry 0x%x and 0x%x", order, x, claim2.GlobalIndex)
		}
	}
	// carrier 5: optimistic commitment over claims
	wantOpt := crypto.Keccak256Hash(append(append([]byte{}, le...), exitHash.Bytes()...))
	if got := optimistichash.CalculateCommitImportedBrdigeExitsHashFromClaims([]bridgesync.Claim{claim}); got != wantOpt {
		return fmt.Errorf("optimistic commitment does not carry 0x%x", x)
	}
	if !wire {
		return nil
	}
	// carriers 3 and 4: wire message and prover request through the real gRPC clients
	w, err := c19WireGet()
	if err != nil {
		return fmt.Errorf("INCONCLUSIVE: grpc fake: %v", err)
	}
	cl, err := c19Clients(w)
	if err != nil {
		return fmt.Errorf("INCONCLUSIVE: grpc clients: %v", err)
	}
	// both messages carry two claims (this one first, then the companion with another index): every entry must carry its
	// own claim's value
	cert.ImportedBridgeExits = []*agglayertypes.ImportedBridgeExit{ibe, ibe2}
	if _, err := cl.agg.SendCertificate(context.Background(), cert); err != nil {
		return fmt.Errorf("SendCertificate: %v", err)
	}
	w.mu.Lock()
	sub := w.submit
	w.mu.Unlock()
	wants := []*big.Int{x, claim2.GlobalIndex}
	hashes := []common.Hash{exitHash, exitHash2}
	if n := len(sub.GetCertificate().GetImportedBridgeExits()); n != 2 {
		return fmt.Errorf("wire message carries %d imported bridge exits, want 2", n)
	}
	for k, e := range sub.GetCertificate().GetImportedBridgeExits() {
		gi := e.GetGlobalIndex().GetValue()
		if len(gi) != 32 || new(big.Int).SetBytes(gi).Cmp(wants[k]) != 0 {
			return fmt.Errorf("wire message entry %d carries global index %x, want 0x%x (32 bytes big-endian)", k, gi, wants[k])
		}
	}
	req := &aggsendertypes.AggchainProofRequest{ImportedBridgeExitsWithBlockNumber: []*agglayertypes.ImportedBridgeExitWithBlockNumber{
		{BlockNumber: 7, ImportedBridgeExit: ibe}, {BlockNumber: 8, ImportedBridgeExit: ibe2}}}
	if _, err := cl.prov.GenerateAggchainProof(context.Background(), req); err != nil {
		return fmt.Errorf("GenerateAggchainProof: %v", err)
	}
	w.mu.Lock()
	pr := w.prove
	w.mu.Unlock()
	if n := len(pr.GetImportedBridgeExits()); n != 2 {
		return fmt.Errorf("prover request carries %d imported bridge exits, want 2", n)
	}
	for k, e := range pr.GetImportedBridgeExits() {
		gi := e.GetGlobalIndex().GetValue()
		if len(gi) != 32 || new(big.Int).SetBytes(gi).Cmp(wants[k]) != 0 {
			return fmt.Errorf("prover request entry %d carries global index %x, want 0x%x", k, gi, wants[k])
		}
		if h := e.GetBridgeExitHash().GetValue(); !bytes.Equal(h, hashes[k].Bytes()) {
			return fmt.Errorf("prover request entry %d carries exit hash %x, want %s", k, h, hashes[k])
		}
	}
	return nil
}

// c19Stray: a mainnet claim whose on-chain global index carries non-zero rollup-index bits (the bridge contract versions
// bound here ignore those bits when the mainnet flag is set, so such a claim can exist). Whatever the node makes of those
// bits, the certificate's signed commitments, the wire message and the prover request must carry one and the same value.
func c19Stray(rollup, leaf uint32, wire bool) error {
	y := new(big.Int).Or(ref.GlobalIndex(true, 0, leaf), new(big.Int).Lsh(new(big.Int).SetUint64(uint64(rollup)), 32))
	claim := bridgesync.Claim{
		BlockNum: 7, GlobalIndex: y, OriginNetwork: 3, OriginAddress: common.HexToAddress("0x11"),
		DestinationAddress: common.HexToAddress("0x22"), DestinationNetwork: 5, Amount: big.NewInt(9),
	}
	bf0 := flows.NewBaseFlow(log.WithFields("module", "c19"), nil, nil, nil, nil, flows.NewBaseFlowConfigDefault())
	ibe, err := bf0.ConvertClaimToImportedBridgeExit(claim)
	if err != nil {
		return fmt.Errorf("ConvertClaimToImportedBridgeExit(0x%x): %v", y, err)
	}
	if !ibe.GlobalIndex.MainnetFlag || ibe.GlobalIndex.LeafIndex != leaf {
		return fmt.Errorf("certificate carries %+v for the mainnet claim 0x%x", *ibe.GlobalIndex, y)
	}
	le := ibe.GlobalIndexToLittleEndianBytes()
	carried := new(big.Int).SetBytes(reverse(le))
	if carried.Bit(64) != 1 || uint32(carried.Uint64()) != leaf || carried.BitLen() > 65 {
		return fmt.Errorf("commitment bytes %x of the mainnet claim 0x%x do not encode (mainnet, leaf %d)", le, y, leaf)
	}
	var dummy agglayertypes.MerkleProof
	ibe.ClaimData = &agglayertypes.ClaimFromMainnnet{ProofLeafMER: &dummy, ProofGERToL1Root: &dummy, L1Leaf: &agglayertypes.L1InfoTreeLeaf{Inner: &agglayertypes.L1InfoTreeLeafInner{}}}
	cert := &agglayertypes.Certificate{NetworkID: 5, Height: 4, NewLocalExitRoot: common.HexToHash("0x77"),
		ImportedBridgeExits: []*agglayertypes.ImportedBridgeExit{ibe},
		AggchainData:        &agglayertypes.AggchainDataSignature{Signature: make([]byte, 65)}}
	exitHash := refExitHash(ibe.BridgeExit)
	cle := le32(carried)
	if cert.PPHashToSign() != crypto.Keccak256Hash(cert.NewLocalExitRoot.Bytes(), crypto.Keccak256(crypto.Keccak256(cle))) {
		return fmt.Errorf("PP commitment of the mainnet claim 0x%x does not carry 0x%x, the value of the certificate's commitment bytes", y, carried)
	}
	if cert.FEPHashToSign() != crypto.Keccak256Hash(cert.NewLocalExitRoot.Bytes(), crypto.Keccak256(append(append([]byte{}, cle...), exitHash.Bytes()...)),
		[]byte{4, 0, 0, 0, 0, 0, 0, 0}, crypto.Keccak256(nil)) {
		return fmt.Errorf("FEP commitment of the mainnet claim 0x%x does not carry 0x%x", y, carried)
	}
	if !wire {
		return nil
	}
	w, err := c19WireGet()
	if err != nil {
		return fmt.Errorf("INCONCLUSIVE: grpc fake: %v", err)
	}
	cl, err := c19Clients(w)
	if err != nil {
		return fmt.Errorf("INCONCLUSIVE: grpc clients: %v", err)
	}
	if _, err := cl.agg.SendCertificate(context.Background(), cert); err != nil {
		return fmt.Errorf("SendCertificate: %v", err)
	}
	w.mu.Lock()
	sub := w.submit
	w.mu.Unlock()
	for _, e := range sub.GetCertificate().GetImportedBridgeExits() {
		if gi := e.GetGlobalIndex().GetValue(); len(gi) != 32 || new(big.Int).SetBytes(gi).Cmp(carried) != 0 {
			return fmt.Errorf("wire message carries global index %x for the mainnet claim 0x%x, the signed commitments carry 0x%x", gi, y, carried)
		}
	}
	req := &aggsendertypes.AggchainProofRequest{ImportedBridgeExitsWithBlockNumber: []*agglayertypes.ImportedBridgeExitWithBlockNumber{{BlockNumber: 7, ImportedBridgeExit: ibe}}}
	if _, err := cl.prov.GenerateAggchainProof(context.Background(), req); err != nil {
		return fmt.Errorf("GenerateAggchainProof: %v", err)
	}
	w.mu.Lock()
	pr := w.prove
	w.mu.Unlock()
	for _, e := range pr.GetImportedBridgeExits() {
		if gi := e.GetGlobalIndex().GetValue(); len(gi) != 32 || new(big.Int).SetBytes(gi).Cmp(carried) != 0 {
			return fmt.Errorf("prover request carries global index %x for the mainnet claim 0x%x, the signed commitments carry 0x%x", gi, y, carried)
		}
	}
	return nil
}

func reverse(b []byte) []byte {
	out := make([]byte, len(b))
	for i := range b {
		out[len(b)-1-i] = b[i]
	}
	return out
}

type c19Cl struct {
	agg interface {
		SendCertificate(context.Context, *agglayertypes.Certificate) (common.Hash, error)
	}
	prov aggsendertypes.AggchainProofClientInterface
}

var (
	c19clOnce sync.Once
	c19cl     *c19Cl
	c19clErr  error
)

func c19Clients(w *c19Wire) (*c19Cl, error) {
	c19clOnce.Do(func() {
		a, err := w.srv.AgglayerClient()
		if err != nil {
			c19clErr = err
			return
		}
		p, err := w.srv.ProverClient()
		if err != nil {
			c19clErr = err
			return
		}
		c19cl = &c19Cl{agg: a, prov: p}
	})
	return c19cl, c19clErr
}

var c19Boundary = []uint32{0, 1, 255, 256, 1<<16 - 1, 1 << 16, 1 << 24, 1 << 31, 1<<32 - 1}

func c19NonTrivial(flag bool, rollup, leaf uint32) bool {
	n := len(ref.GlobalIndex(flag, rollup, leaf).Bytes())
	return (n != 4 && n != 8 && n != 9) || (flag && rollup != 0)
}

func TestC19(t *testing.T) {
	rec := ev.For("C19", c19Rule)
	var rp struct {
		Flag   bool   `json:"flag"`
		Rollup uint32 `json:"rollup"`
		Leaf   uint32 `json:"leaf"`
	}
	if loadReplay(&rp) {
		if err := c19Check(rp.Flag, rp.Rollup, rp.Leaf, true); err != nil {
			t.Fatalf("replay: %v", err)
		}
		return
	}
	n := 0
	for _, flag := range []bool{false, true} {
		for _, r := range c19Boundary {
			for _, l := range c19Boundary {
				nt := c19NonTrivial(flag, r, l)
				rec.Case(nt, fmt.Sprint(flag, r, l))
				n++
				if nt && n%23 == 0 {
					rec.Sample(map[string]any{"flag": flag, "rollup": r, "leaf": l, "value": "0x" + ref.GlobalIndex(flag, r, l).Text(16), "mode": "boundary"})
				}
				if err := c19Check(flag, r, l, true); err != nil {
					p := saveReplay("C19", map[string]any{"flag": flag, "rollup": r, "leaf": l})
					t.Fatalf("%v (replay %s)", err, p)
				}
			}
		}
	}
	rec.Set("boundary_triples_exhaustive", n)
	u32 := rapid.OneOf(rapid.SampledFrom(c19Boundary), rapid.Uint32(), rapid.Uint32Range(0, 70000), rapid.Uint32Range(1<<24-3, 1<<24+3))
	rapid.Check(t, func(rt *rapid.T) {
		flag := rapid.Bool().Draw(rt, "flag")
		r := u32.Draw(rt, "rollup")
		l := u32.Draw(rt, "leaf")
		nt := c19NonTrivial(flag, r, l)
		rec.Case(nt, fmt.Sprint(flag, r, l))
		if err := c19Check(flag, r, l, true); err != nil {
			rt.Fatalf("%v", err)
		}
	})
}

func FuzzC19(f *testing.F) {
	for _, r := range c19Boundary {
		f.Add(false, r, uint32(1))
		f.Add(true, uint32(0), r)
		f.Add(false, r, r)
	}
	f.Fuzz(func(t *testing.T, flag bool, rollup, leaf uint32) {
		if err := c19Check(flag, rollup, leaf, false); err != nil {
			t.Fatalf("%v", err)
		}
	})
}
