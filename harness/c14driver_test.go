package harness

import (
	"context"
	"errors"
	"fmt"
	"math/big"
	"sync"
	"testing"
	"time"

	"github.com/0xPolygon/cdk-contracts-tooling/contracts/pp/l2-sovereign-chain/polygonzkevmglobalexitrootv2"
	cfgtypes "github.com/agglayer/aggkit/config/types"
	"github.com/agglayer/aggkit/l1infotreesync"
	"github.com/agglayer/aggkit/reorgdetector"
	aggkitsync "github.com/agglayer/aggkit/sync"
	aggkittypes "github.com/agglayer/aggkit/types"
	"github.com/ethereum/go-ethereum/common"
	"github.com/ethereum/go-ethereum/core/types"
	"pgregory.net/rapid"

	"verifharness/ev"
	"verifharness/fakechain"
)

// C14, driver-level leg: the public l1infotreesync.New (real downloader, EVM driver, reorg detector, processor) follows a
// scripted chain in which one block announces an L1 info root that the tree does not have (UpdateL1InfoTreeV2 with a wrong
// root). The node must stop before that block and answer ErrInconsistentState; a fork above the halting block (nothing
// processed is removed) must not clear it; a fork that removes processed blocks clears it and the node converges to the new fork.

func c14V2Log(root common.Hash, leafCount uint32) types.Log {
	a, err := polygonzkevmglobalexitrootv2.Polygonzkevmglobalexitrootv2MetaData.GetAbi()
	if err != nil {
		panic(err)
	}
	e := a.Events["UpdateL1InfoTreeV2"]
	l := types.Log{Address: c06GER, Topics: []common.Hash{e.ID}}
	vals := map[string]any{"currentL1InfoRoot": [32]byte(root), "leafCount": leafCount, "blockhash": big.NewInt(7), "minTimestamp": uint64(9)}
	var nonIndexed []any
	for _, in := range e.Inputs {
		v, ok := vals[in.Name]
		if !ok {
			panic("c14: unknown event input " + in.Name)
		}
		if in.Indexed {
			switch x := v.(type) {
			case uint32:
				l.Topics = append(l.Topics, common.BigToHash(new(big.Int).SetUint64(uint64(x))))
			case uint64:
				l.Topics = append(l.Topics, common.BigToHash(new(big.Int).SetUint64(x)))
			case [32]byte:
				l.Topics = append(l.Topics, common.Hash(x))
			case *big.Int:
				l.Topics = append(l.Topics, common.BigToHash(x))
			}
		} else {
			nonIndexed = append(nonIndexed, v)
		}
	}
	data, err := e.Inputs.NonIndexed().Pack(nonIndexed...)
	if err != nil {
		panic(err)
	}
	l.Data = data
	return l
}

type c14dCase struct {
	Base      []int // info logs per block before the halting block
	After     []int // info logs per block after it
	ForkAbove []int // new suffix of the fork at (or, AboveOnly, just above) the halting block
	AboveOnly bool
	ForkDepth int   // the clearing fork starts this many event blocks before the halting block (>=1)
	NewFork   []int // suffix of the clearing fork
	Chunk     uint64
}

func c14dRun(c c14dCase) (verdict, inconcl string, cleared bool) {
	chain := fakechain.New()
	var eventBlocks []uint64
	for _, n := range c.Base {
		b := chain.Extend(c06Logs(n % 3))
		if n%3 > 0 {
			eventBlocks = append(eventBlocks, b)
		}
	}
	// the halting block: one more leaf, then an announcement of a root the tree cannot have
	logs := c06Logs(1)
	v2 := c14V2Log(common.HexToHash("0xbad0bad0bad0"), uint32(1000))
	v2.Index = 1
	haltBlock := chain.Extend(append(logs, v2))
	for _, n := range c.After {
		chain.Extend(c06Logs(n % 3))
	}
	tip := chain.Tip()
	chain.SetPointers(tip, tip, 0) // nothing is finalized: every block can still be replaced
	var (
		mu       sync.Mutex
		sinceLog int
		sweeps   int
	)
	chain.Hook = func(ch *fakechain.Chain, call fakechain.Call) error {
		mu.Lock()
		defer mu.Unlock()
		switch {
		case call.Method == "FilterLogs":
			sinceLog, sweeps = 0, 0
		case call.Method == "HeaderByNumber" && call.Tag == "latest":
			sinceLog++
		case call.Method == "HeaderByNumber" && call.Tag == "finalized":
			sweeps++
		}
		return nil
	}
	storePath, clean := tmpDB("c14d")
	defer clean()
	ctx, cancel := context.WithCancel(context.Background())
	rd, err := reorgdetector.New(chain, reorgdetector.Config{DBPath: storePath + ".rd", CheckReorgsInterval: cfgtypes.NewDuration(time.Millisecond), FinalizedBlock: aggkittypes.FinalizedBlock}, reorgdetector.L1)
	if err != nil {
		cancel()
		return "", "constructor: " + err.Error(), false
	}
	if err := rd.Start(ctx); err != nil {
		cancel()
		return "", "constructor: " + err.Error(), false
	}
	s, err := l1infotreesync.New(ctx, storePath, c06GER, c06RM, c.Chunk, aggkittypes.LatestBlock, rd, chain, time.Millisecond, 0, time.Millisecond, -1,
		l1infotreesync.FlagAllowWrongContractsAddrs, aggkittypes.FinalizedBlock, false)
	if err != nil {
		cancel()
		return "", "constructor: " + err.Error(), false
	}
	done := make(chan struct{})
	go func() { s.Start(ctx); close(done) }()
	defer func() {
		cancel()
		select {
		case <-done:
		case <-time.After(3 * time.Second): // see O7: Sync may not return when cancelled inside handleReorg
		}
	}()
	// idle = the downloader has made no range query for a while. A halted node has stopped its downloader, so it does not
	// poll the tip any more: there only the reorg detector's sweeps measure time.
	waitIdleFor := func(polls, minSweeps int) bool {
		mu.Lock()
		sinceLog, sweeps = 0, 0
		mu.Unlock()
		dl := time.Now().Add(60 * time.Second)
		for time.Now().Before(dl) {
			mu.Lock()
			ok := sinceLog >= polls && sweeps >= minSweeps
			mu.Unlock()
			if ok {
				return true
			}
			time.Sleep(300 * time.Microsecond)
		}
		return false
	}
	halted := func(when string) string {
		// stable for 3 s of idleness: below the halting block, and every query refuses
		var msg string
		for since := time.Now(); time.Since(since) < 3*time.Second; {
			if !waitIdleFor(0, 20) {
				inconcl = "node did not go idle within 60s (" + when + ")"
				return ""
			}
			msg = ""
			if _, err := s.GetLastProcessedBlock(bg); !errors.Is(err, aggkitsync.ErrInconsistentState) {
				msg = fmt.Sprintf("GetLastProcessedBlock returned %v", err)
			} else if _, err := s.GetLastL1InfoTreeRoot(bg); !errors.Is(err, aggkitsync.ErrInconsistentState) {
				msg = fmt.Sprintf("GetLastL1InfoTreeRoot returned %v", err)
			} else if _, err := s.GetInfoByIndex(bg, 0); !errors.Is(err, aggkitsync.ErrInconsistentState) {
				msg = fmt.Sprintf("GetInfoByIndex(0) returned %v", err)
			} else if _, err := s.GetLastInfo(); !errors.Is(err, aggkitsync.ErrInconsistentState) {
				msg = fmt.Sprintf("GetLastInfo returned %v", err)
			} else if _, err := s.GetLatestInfoUntilBlock(bg, haltBlock); !errors.Is(err, aggkitsync.ErrInconsistentState) {
				msg = fmt.Sprintf("GetLatestInfoUntilBlock returned %v", err)
			}
			if msg == "" {
				break
			}
		}
		if msg != "" {
			return fmt.Sprintf("%s: the chain announced an L1 info root the tree does not have in block %d, but %s instead of ErrInconsistentState", when, haltBlock, msg)
		}
		// it must not have recorded the halting block or anything after it
		for n, h := range deliveredBlocks(storePath) {
			if n >= haltBlock {
				return fmt.Sprintf("%s: block %d (%s) is recorded although the node halted at block %d", when, n, h.Hex()[:10], haltBlock)
			}
		}
		return ""
	}
	if v := halted("after the inconsistent block"); v != "" || inconcl != "" {
		return v, inconcl, false
	}
	// a fork at or above the halting block removes nothing the node has stored (the halting block itself was tracked but
	// never recorded): it stays halted
	if len(c.ForkAbove) > 0 {
		var suffix [][]types.Log
		for _, n := range c.ForkAbove {
			suffix = append(suffix, c06Logs(n%3))
		}
		at := haltBlock
		if c.AboveOnly && chain.Tip() > haltBlock {
			at = haltBlock + 1
		}
		chain.Fork(at, suffix)
		for chain.Tip() <= tip {
			chain.Extend(nil)
		}
		tip = chain.Tip()
		chain.SetPointers(tip, tip, 0)
		if v := halted(fmt.Sprintf("after a fork at block %d, which removes no stored block (halting block %d)", at, haltBlock)); v != "" || inconcl != "" {
			return v, inconcl, false
		}
	}
	// a fork that removes processed blocks (it starts at an event block the node has stored) clears the condition
	if len(eventBlocks) == 0 {
		return "", "", false
	}
	d := c.ForkDepth
	if d > len(eventBlocks) {
		d = len(eventBlocks)
	}
	at := eventBlocks[len(eventBlocks)-d]
	var suffix [][]types.Log
	for _, n := range c.NewFork {
		suffix = append(suffix, c06Logs(n%3))
	}
	chain.Fork(at, suffix)
	for chain.Tip() <= tip {
		chain.Extend(nil)
	}
	tip = chain.Tip()
	chain.SetPointers(tip, tip, 0)
	deadline := time.Now().Add(120 * time.Second)
	var idleSince time.Time
	for {
		if waitIdleFor(30, 3) {
			diff := c06Compare(s, c06Expected(chain, false))
			if diff == "" {
				return "", "", true
			}
			if idleSince.IsZero() {
				idleSince = time.Now()
			}
			if time.Since(idleSince) > 3*time.Second {
				return fmt.Sprintf("a fork at block %d replaced processed blocks and the halting block %d, but the node did not recover and converge: %s", at, haltBlock, diff), "", false
			}
		}
		if time.Now().After(deadline) {
			return "", "node did not become idle within 120s after the clearing fork", false
		}
	}
}

func TestC14Driver(t *testing.T) {
	rec := ev.For("C14", c14Rule)
	rec.Set("driver_level_leg", "1 in 25 cases of the budget: public l1infotreesync.New + real reorg detector on a scripted chain whose block H announces (UpdateL1InfoTreeV2) a root the tree does not have; oracle = idle below H with every probed query answering ErrInconsistentState, still so after a fork above H, recovered and converged after a fork that replaces stored blocks")
	rapid.Check(t, func(rt *rapid.T) {
		if rapid.IntRange(0, 24).Draw(rt, "runDriverLeg") != 0 {
			return
		}
		var c c14dCase
		for i, n := 0, rapid.IntRange(1, 12).Draw(rt, "nBase"); i < n; i++ {
			c.Base = append(c.Base, rapid.IntRange(0, 2).Draw(rt, "logs"))
		}
		for i, n := 0, rapid.IntRange(0, 6).Draw(rt, "nAfter"); i < n; i++ {
			c.After = append(c.After, rapid.IntRange(0, 2).Draw(rt, "logs"))
		}
		for i, n := 0, rapid.IntRange(0, 4).Draw(rt, "nForkAbove"); i < n; i++ {
			c.ForkAbove = append(c.ForkAbove, rapid.IntRange(0, 2).Draw(rt, "logs"))
		}
		c.AboveOnly = rapid.Bool().Draw(rt, "forkAboveOnly")
		c.ForkDepth = rapid.IntRange(1, 3).Draw(rt, "forkDepth")
		for i, n := 0, rapid.IntRange(0, 6).Draw(rt, "nNewFork"); i < n; i++ {
			c.NewFork = append(c.NewFork, rapid.IntRange(0, 2).Draw(rt, "logs"))
		}
		c.Chunk = uint64(rapid.SampledFrom([]int{1, 3, 50}).Draw(rt, "chunk"))
		v, inc, cleared := c14dRun(c)
		if inc != "" {
			rt.Fatalf("INCONCLUSIVE: %s\ncase: %+v", inc, c)
		}
		rec.Case(cleared, fmt.Sprintf("driver|%+v", c))
		rec.Class("driver_level_cases")
		if cleared {
			rec.Class("driver_level_halt_cleared_by_fork")
		}
		if v != "" {
			rt.Fatalf("[driver level] %s\ncase: %+v", v, c)
		}
	})
}
