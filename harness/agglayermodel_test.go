package harness

import (
	"context"
	"errors"
	"fmt"
	"math/big"
	"sync"
	"time"

	"github.com/0xPolygon/cdk-contracts-tooling/contracts/pp/l2-sovereign-chain/polygonrollupmanager"
	"github.com/agglayer/aggkit/agglayer"
	agglayertypes "github.com/agglayer/aggkit/agglayer/types"
	"github.com/agglayer/aggkit/aggsender"
	"github.com/agglayer/aggkit/aggsender/config"
	aggsendertypes "github.com/agglayer/aggkit/aggsender/types"
	"github.com/agglayer/aggkit/bridgesync"
	cfgtypes "github.com/agglayer/aggkit/config/types"
	"github.com/agglayer/aggkit/log"
	"github.com/agglayer/go_signer/signer"
	"github.com/ethereum/go-ethereum/common"
	"github.com/ethereum/go-ethereum/crypto"

	"verifharness/ref"
)

// Model Agglayer: certificate state machine + the checks the real Agglayer's pessimistic proof performs, recorded as
// tagged violations instead of rejections (so that rapid shrinks the failing history).

const verifPrivKey = "45f3ccdaff88ab1b3bb41472f09d5cde7cb20a6cbbc9197fddf64e2f3d67aaf2"

// further keys for the "operator rotates the aggsender key and restarts the node" action of C10
var verifRotatedKeys = []string{
	"59c6995e998f97a5a0044966f0945389dc9e86dae88c7a8412f4603b6b78690d",
	"5de4111afa1a4b94908f83103eb1f1706367c2e68ca870fc3fb9a804cdab365a",
}

func addrOfKey(hexKey string) common.Address {
	k, err := crypto.HexToECDSA(hexKey)
	if err != nil {
		panic(err)
	}
	return crypto.PubkeyToAddress(k.PublicKey)
}

var verifSignerAddr = addrOfKey(verifPrivKey)

type mCert struct {
	ID       common.Hash
	Cert     *agglayertypes.Certificate // as received (deep enough: the node does not mutate it afterwards)
	Status   agglayertypes.CertificateStatus
	WithPrev bool // header carries prev_local_exit_root
	From, To uint64
	Seq      int
}

type violation struct {
	Prop string
	Msg  string
}

type mAgglayer struct {
	mu          sync.Mutex
	w           *jWorld
	certs       []*mCert
	byID        map[common.Hash]*mCert
	lastSettled *mCert
	front       ref.Frontier // the network's local exit tree as the Agglayer knows it (advanced on Settled only)
	violations  []violation
	failNext    map[string]int // method -> number of upcoming calls that fail without effect
	crashAt     string         // "", "before-submit", "after-submit": panic with errCrash at that point of SendCertificate
	calls       map[string]int
	onSubmit    func(c *mCert)
	headerPrev  bool           // whether newly received certificates will carry prev LER in their header
	expectFEP   bool           // the node runs the aggchain-prover flow: FEP certificate type and FEP signing commitment
	outOfDomain int            // imported exits skipped by the C09 oracle because their GER is above the finalized L1 info leaf
	signer      common.Address // address of the key the running node instance is configured with
}

type crashSignal struct{ at string }

func newMAgglayer(w *jWorld) *mAgglayer {
	return &mAgglayer{w: w, byID: map[common.Hash]*mCert{}, failNext: map[string]int{}, calls: map[string]int{}, headerPrev: true, signer: verifSignerAddr}
}

func (m *mAgglayer) violate(prop, format string, a ...any) {
	m.violations = append(m.violations, violation{prop, fmt.Sprintf(format, a...)})
}

func (m *mAgglayer) firstViolation(props ...string) *violation {
	m.mu.Lock()
	defer m.mu.Unlock()
	for i := range m.violations {
		for _, p := range props {
			if m.violations[i].Prop == p {
				return &m.violations[i]
			}
		}
	}
	return nil
}

func (m *mAgglayer) fail(method string) bool {
	m.calls[method]++
	if m.failNext[method] > 0 {
		m.failNext[method]--
		return true
	}
	return false
}

// undecided returns the oldest certificate that is neither settled nor in error.
func (m *mAgglayer) undecided() *mCert {
	for _, c := range m.certs {
		if c.Status.IsOpen() {
			return c
		}
	}
	return nil
}

func (m *mAgglayer) lastAtHeight(h uint64) *mCert {
	var out *mCert
	for _, c := range m.certs {
		if c.Cert.Height == h {
			out = c
		}
	}
	return out
}

// certID: certificate ids are opaque to the node; the model makes them unique per submission.
// certID: like the real Agglayer, the model derives a certificate's id from its content (the certificate hash, which
// covers network, height, exit roots and exits, plus the metadata). A retry that is byte-identical to the certificate it
// replaces (same range, built within the same second, or - in the prover flow - reusing the stored proof and creation
// time) therefore gets the SAME id; byID then names the latest submission with that id.
func certID(c *agglayertypes.Certificate, _ int) common.Hash {
	return crypto.Keccak256Hash(c.Hash().Bytes(), c.Metadata.Bytes())
}

// SendCertificate implements agglayer.AgglayerClientInterface.
func (m *mAgglayer) SendCertificate(_ context.Context, cert *agglayertypes.Certificate) (common.Hash, error) {
	m.mu.Lock()
	defer m.mu.Unlock()
	if m.crashAt == "before-submit" {
		m.crashAt = ""
		panic(crashSignal{"before-submit"})
	}
	if m.fail("SendCertificate") {
		return common.Hash{}, errors.New("agglayer: injected failure (certificate not received)")
	}
	mc := &mCert{ID: certID(cert, len(m.certs)), Cert: cert, Status: agglayertypes.Pending, WithPrev: m.headerPrev, Seq: len(m.certs)}
	m.checkSubmission(mc)
	m.certs = append(m.certs, mc)
	m.byID[mc.ID] = mc
	if m.onSubmit != nil {
		m.onSubmit(mc)
	}
	if m.crashAt == "after-submit" {
		m.crashAt = ""
		panic(crashSignal{"after-submit"})
	}
	return mc.ID, nil
}

func (m *mAgglayer) header(c *mCert) *agglayertypes.CertificateHeader {
	if c == nil {
		return nil
	}
	h := &agglayertypes.CertificateHeader{NetworkID: c.Cert.NetworkID, Height: c.Cert.Height, CertificateID: c.ID,
		NewLocalExitRoot: c.Cert.NewLocalExitRoot, Status: c.Status, Metadata: c.Cert.Metadata}
	if c.WithPrev {
		p := c.Cert.PrevLocalExitRoot
		h.PreviousLocalExitRoot = &p
	}
	if c.Status == agglayertypes.InError {
		h.Error = errors.New("model: proof verification failed")
	}
	return h
}

func (m *mAgglayer) GetCertificateHeader(_ context.Context, id common.Hash) (*agglayertypes.CertificateHeader, error) {
	m.mu.Lock()
	defer m.mu.Unlock()
	if m.fail("GetCertificateHeader") {
		return nil, errors.New("agglayer: injected failure")
	}
	c, ok := m.byID[id]
	if !ok {
		return nil, fmt.Errorf("agglayer: certificate %s not found", id)
	}
	return m.header(c), nil
}

func (m *mAgglayer) GetEpochConfiguration(context.Context) (*agglayertypes.ClockConfiguration, error) {
	return &agglayertypes.ClockConfiguration{EpochDuration: 10, GenesisBlock: 1}, nil
}

func (m *mAgglayer) GetLatestSettledCertificateHeader(_ context.Context, _ uint32) (*agglayertypes.CertificateHeader, error) {
	m.mu.Lock()
	defer m.mu.Unlock()
	if m.fail("GetLatestSettledCertificateHeader") {
		return nil, errors.New("agglayer: injected failure")
	}
	return m.header(m.lastSettled), nil
}

// latest pending = the last received certificate that has not settled (pending, proven, candidate or in error)
// above the settled height.
func (m *mAgglayer) GetLatestPendingCertificateHeader(_ context.Context, _ uint32) (*agglayertypes.CertificateHeader, error) {
	m.mu.Lock()
	defer m.mu.Unlock()
	if m.fail("GetLatestPendingCertificateHeader") {
		return nil, errors.New("agglayer: injected failure")
	}
	var out *mCert
	for _, c := range m.certs {
		if c.Status != agglayertypes.Settled && (m.lastSettled == nil || c.Cert.Height > m.lastSettled.Cert.Height) {
			out = c
		}
	}
	return m.header(out), nil
}

// ---- generator-driven moves ----

// advance moves the oldest undecided certificate one state forward; returns false if there is none.
func (m *mAgglayer) advance() bool {
	m.mu.Lock()
	defer m.mu.Unlock()
	c := m.undecided()
	if c == nil {
		return false
	}
	switch c.Status {
	case agglayertypes.Pending:
		c.Status = agglayertypes.Proven
	case agglayertypes.Proven:
		c.Status = agglayertypes.Candidate
	case agglayertypes.Candidate:
		c.Status = agglayertypes.Settled
		m.lastSettled = c
		for _, e := range c.Cert.BridgeExits {
			m.front.Add(wireExitHash(e))
		}
		m.checkSettledPrefix()
	}
	return true
}

func (m *mAgglayer) settleFully() bool {
	m.mu.Lock()
	c := m.undecided()
	m.mu.Unlock()
	if c == nil {
		return false
	}
	for c.Status != agglayertypes.Settled {
		m.advance()
	}
	return true
}

func (m *mAgglayer) errorOut() bool {
	m.mu.Lock()
	defer m.mu.Unlock()
	c := m.undecided()
	if c == nil {
		return false
	}
	c.Status = agglayertypes.InError
	return true
}

// ---- oracles ----

func wireExitHash(e *agglayertypes.BridgeExit) common.Hash {
	mh := common.BytesToHash(crypto.Keccak256(nil))
	if len(e.Metadata) > 0 {
		mh = common.BytesToHash(e.Metadata)
	}
	amt := e.Amount
	if amt == nil {
		amt = big.NewInt(0)
	}
	return ref.BridgeLeaf(uint8(e.LeafType), e.TokenInfo.OriginNetwork, e.TokenInfo.OriginTokenAddress, e.DestinationNetwork, e.DestinationAddress, amt, mh)
}

func decodeMeta(h common.Hash) (from, to uint64, certType uint8, ok bool) {
	meta, err := aggsendertypes.NewCertificateMetadataFromHash(h)
	if err != nil || meta.Version != aggsendertypes.CertificateMetadataV2 {
		return 0, 0, 0, false
	}
	return meta.FromBlock, meta.FromBlock + uint64(meta.Offset), meta.CertType, true
}

// checkSubmission runs, on every received certificate, what the real Agglayer would verify (C02, C03, C09, C10).
func (m *mAgglayer) checkSubmission(mc *mCert) {
	c := mc.Cert
	desc := fmt.Sprintf("certificate #%d (height %d)", mc.Seq, c.Height)
	// ---- C02: chain of certificates
	if u := m.undecided(); u != nil {
		m.violate("C02", "%s submitted while certificate #%d (height %d) is still %s", desc, u.Seq, u.Cert.Height, u.Status)
	}
	wantH, wantPrev, wantFrom := uint64(0), ref.EmptyRoot, uint64(1)
	if m.lastSettled != nil {
		wantH, wantPrev, wantFrom = m.lastSettled.Cert.Height+1, m.lastSettled.Cert.NewLocalExitRoot, m.lastSettled.To+1
	}
	from, to, ct, ok := decodeMeta(c.Metadata)
	mc.From, mc.To = from, to
	if !ok {
		m.violate("C03", "%s: metadata %s does not decode as block-range metadata v2", desc, c.Metadata)
	}
	if c.Height != wantH {
		m.violate("C02", "%s has height %d, last settled height + 1 is %d", desc, c.Height, wantH)
	}
	if c.PrevLocalExitRoot != wantPrev {
		m.violate("C02", "%s starts from exit root %s, the last settled certificate's new exit root is %s", desc, c.PrevLocalExitRoot, wantPrev)
	}
	if ok && from != wantFrom {
		m.violate("C02", "%s starts at block %d, the block after the last settled certificate's last block is %d", desc, from, wantFrom)
	}
	if prev := m.lastAtHeight(c.Height); prev != nil && prev.Status == agglayertypes.InError && ok {
		if from != prev.From {
			m.violate("C02", "%s replaces certificate #%d in error (first block %d) but starts at block %d", desc, prev.Seq, prev.From, from)
		}
	}
	if c.NetworkID != jNetID {
		m.violate("C03", "%s has network id %d", desc, c.NetworkID)
	}
	// ---- C03: content follows from the block range
	if ok {
		wantType := aggsendertypes.CertificateTypePP.ToInt()
		if m.expectFEP {
			wantType = aggsendertypes.CertificateTypeFEP.ToInt()
		}
		if ct != wantType {
			m.violate("C03", "%s metadata carries certificate type %d, want %d", desc, ct, wantType)
		}
		if to < from || to > m.w.lastL2Block() {
			m.violate("C03", "%s covers blocks [%d,%d] but the L2 chain ends at %d", desc, from, to, m.w.lastL2Block())
		} else {
			brs, cls := m.w.eventsIn(from, to)
			if len(c.BridgeExits) != len(brs) {
				m.violate("C03", "%s covers blocks [%d,%d] with %d bridge events but carries %d bridge exits", desc, from, to, len(brs), len(c.BridgeExits))
			} else {
				for i, e := range c.BridgeExits {
					if d := exitVsBridge(e, brs[i]); d != "" {
						m.violate("C03", "%s bridge exit %d differs from the %d-th bridge event of its range (deposit %d): %s", desc, i, i+1, brs[i].DepositCount, d)
					}
				}
			}
			if len(c.ImportedBridgeExits) != len(cls) {
				m.violate("C03", "%s covers blocks [%d,%d] with %d claim events but carries %d imported bridge exits", desc, from, to, len(cls), len(c.ImportedBridgeExits))
			} else {
				for i, ib := range c.ImportedBridgeExits {
					if d := importedVsClaim(ib, cls[i]); d != "" {
						m.violate("C03", "%s imported exit %d differs from the %d-th claim event of its range: %s", desc, i, i+1, d)
					}
				}
			}
		}
	}
	f := m.front.Clone()
	if f.Root() != c.PrevLocalExitRoot {
		// already reported under C02 when it differs from the settled root; the recomputation below starts from the
		// Agglayer's own tree, which is the tree "whose root is the previous local exit root" when C02 holds
	}
	for _, e := range c.BridgeExits {
		f.Add(wireExitHash(e))
	}
	if f.Root() != c.NewLocalExitRoot && c.PrevLocalExitRoot == m.front.Root() {
		m.violate("C03", "%s: appending its %d bridge exits to the tree with root %s gives %s, not its new local exit root %s", desc, len(c.BridgeExits), c.PrevLocalExitRoot, f.Root(), c.NewLocalExitRoot)
	}
	if c.PrevLocalExitRoot != m.front.Root() {
		// the certificate names another previous root (C02 has reported that): C03 still speaks about "the exit tree whose
		// root is the certificate's previous local exit root" - if that is a root the L2 exit tree really had (after k
		// deposits), the same recomputation is made from there
		var g ref.Frontier
		known := g.Root() == c.PrevLocalExitRoot
		for _, b := range m.w.l2blocks {
			for _, br := range b.Bridges {
				if known {
					break
				}
				g.Add(refBridgeLeaf(br))
				known = g.Root() == c.PrevLocalExitRoot
			}
		}
		if known {
			for _, e := range c.BridgeExits {
				g.Add(wireExitHash(e))
			}
			if g.Root() != c.NewLocalExitRoot {
				m.violate("C03", "%s: appending its %d bridge exits to the exit tree whose root is its previous local exit root %s gives %s, not its new local exit root %s", desc, len(c.BridgeExits), c.PrevLocalExitRoot, g.Root(), c.NewLocalExitRoot)
			}
		}
	}
	// ---- C09: claim proofs
	m.checkClaimProofs(mc, desc)
	// ---- C10: signature over the commitment of the final content
	m.checkSignature(mc, desc)
}

func exitVsBridge(e *agglayertypes.BridgeExit, b bridgesync.Bridge) string {
	switch {
	case uint8(e.LeafType) != b.LeafType:
		return "leaf type"
	case e.TokenInfo == nil || e.TokenInfo.OriginNetwork != b.OriginNetwork || e.TokenInfo.OriginTokenAddress != b.OriginAddress:
		return "origin token"
	case e.DestinationNetwork != b.DestinationNetwork || e.DestinationAddress != b.DestinationAddress:
		return "destination"
	case (e.Amount == nil && b.Amount.Sign() != 0) || (e.Amount != nil && e.Amount.Cmp(b.Amount) != 0):
		return fmt.Sprintf("amount %v vs %v", e.Amount, b.Amount)
	}
	if len(b.Metadata) == 0 {
		if len(e.Metadata) != 0 {
			return "metadata present for an event without metadata"
		}
	} else if common.BytesToHash(e.Metadata) != crypto.Keccak256Hash(b.Metadata) || len(e.Metadata) != 32 {
		return fmt.Sprintf("metadata hash %x vs keccak(metadata) %s", e.Metadata, crypto.Keccak256Hash(b.Metadata))
	}
	return ""
}

func importedVsClaim(ib *agglayertypes.ImportedBridgeExit, c bridgesync.Claim) string {
	if ib.BridgeExit == nil || ib.GlobalIndex == nil {
		return "missing parts"
	}
	lt := uint8(0)
	if c.IsMessage {
		lt = 1
	}
	b := bridgesync.Bridge{LeafType: lt, OriginNetwork: c.OriginNetwork, OriginAddress: c.OriginAddress, DestinationNetwork: c.DestinationNetwork,
		DestinationAddress: c.DestinationAddress, Amount: c.Amount, Metadata: c.Metadata}
	if d := exitVsBridge(ib.BridgeExit, b); d != "" {
		return d
	}
	// the certificate's (flag, rollup, leaf) are the bit fields of the event's value (a mainnet index may carry stray
	// rollup bits on chain; what the encodings do with them is not this comparison's business)
	if f, r, l := ref.SplitGlobalIndex(c.GlobalIndex); f != ib.GlobalIndex.MainnetFlag || r != ib.GlobalIndex.RollupIndex || l != ib.GlobalIndex.LeafIndex {
		return fmt.Sprintf("global index %+v vs the event's 0x%x", *ib.GlobalIndex, c.GlobalIndex)
	}
	return ""
}

func (m *mAgglayer) checkClaimProofs(mc *mCert, desc string) {
	c := mc.Cert
	if len(c.ImportedBridgeExits) == 0 {
		return
	}
	// the root the certificate names = the L1 info root of its leaf count
	lc := c.L1InfoTreeLeafCount
	if lc == 0 || int(lc) > len(m.w.infoRoots) {
		m.violate("C09", "%s names L1 info tree leaf count %d, the tree has %d leaves", desc, lc, len(m.w.infoRoots))
		return
	}
	named := m.w.infoRoots[lc-1]
	_, rangeClaims := m.w.eventsIn(mc.From, mc.To)
	finIdx := m.w.finalizedInfoIdx()
	for i, ib := range c.ImportedBridgeExits {
		// stated domain: the claim's GER is at or below the finalized L1 info root. Claims outside it are skipped (counted).
		if i < len(rangeClaims) {
			if gi := m.w.infoIdxOfGER(rangeClaims[i].GlobalExitRoot); gi > finIdx {
				m.outOfDomain++
				continue
			}
		}
		var l1 *agglayertypes.L1InfoTreeLeaf
		var pGER *agglayertypes.MerkleProof
		exitHash := wireExitHash(ib.BridgeExit)
		what := fmt.Sprintf("%s imported exit %d", desc, i)
		switch cd := ib.ClaimData.(type) {
		case *agglayertypes.ClaimFromMainnnet:
			l1, pGER = cd.L1Leaf, cd.ProofGERToL1Root
			if !ib.GlobalIndex.MainnetFlag {
				m.violate("C09", "%s: mainnet claim data for a rollup global index", what)
			}
			if got := ref.VerifyProof(exitHash, cd.ProofLeafMER.Proof, ib.GlobalIndex.LeafIndex); got != l1.MainnetExitRoot || cd.ProofLeafMER.Root != l1.MainnetExitRoot {
				m.violate("C09", "%s: proof from the claimed leaf (index %d) leads to %s, the leaf's mainnet exit root is %s", what, ib.GlobalIndex.LeafIndex, got, l1.MainnetExitRoot)
			}
		case *agglayertypes.ClaimFromRollup:
			l1, pGER = cd.L1Leaf, cd.ProofGERToL1Root
			ler := ref.VerifyProof(exitHash, cd.ProofLeafLER.Proof, ib.GlobalIndex.LeafIndex)
			if ler != cd.ProofLeafLER.Root {
				m.violate("C09", "%s: proof from the claimed leaf leads to %s, the stated local exit root is %s", what, ler, cd.ProofLeafLER.Root)
			}
			if got := ref.VerifyProof(cd.ProofLeafLER.Root, cd.ProofLERToRER.Proof, ib.GlobalIndex.RollupIndex); got != l1.RollupExitRoot || cd.ProofLERToRER.Root != l1.RollupExitRoot {
				m.violate("C09", "%s: proof from the local exit root (rollup index %d) leads to %s, the leaf's rollup exit root is %s", what, ib.GlobalIndex.RollupIndex, got, l1.RollupExitRoot)
			}
		default:
			m.violate("C09", "%s has no claim data", what)
			continue
		}
		if l1 == nil || l1.Inner == nil || pGER == nil {
			m.violate("C09", "%s lacks its L1 info leaf / proof", what)
			continue
		}
		if pGER.Root != named {
			m.violate("C09", "%s proves against root %s, the certificate's leaf count %d belongs to root %s", what, pGER.Root, lc, named)
		}
		leafHash := ref.L1InfoLeaf(l1.Inner.GlobalExitRoot, l1.Inner.BlockHash, l1.Inner.Timestamp)
		if got := ref.VerifyProof(leafHash, pGER.Proof, l1.L1InfoTreeIndex); got != named {
			m.violate("C09", "%s: its L1 info leaf (index %d) hashes with its proof to %s, not to the named root %s", what, l1.L1InfoTreeIndex, got, named)
		}
		if l1.L1InfoTreeIndex >= lc {
			m.violate("C09", "%s: leaf index %d is not below the certificate's leaf count %d", what, l1.L1InfoTreeIndex, lc)
		}
		if l1.Inner.GlobalExitRoot != ref.GER(l1.MainnetExitRoot, l1.RollupExitRoot) {
			m.violate("C09", "%s: leaf GER %s is not keccak(mainnet exit root, rollup exit root)", what, l1.Inner.GlobalExitRoot)
		}
		// ... and is the one the claim was made against
		from, to := mc.From, mc.To
		_, cls := m.w.eventsIn(from, to)
		if i < len(cls) && cls[i].GlobalExitRoot != l1.Inner.GlobalExitRoot {
			m.violate("C09", "%s: leaf GER %s, the claim was made against %s", what, l1.Inner.GlobalExitRoot, cls[i].GlobalExitRoot)
		}
		if int(l1.L1InfoTreeIndex) < len(m.w.infos) && m.w.infos[l1.L1InfoTreeIndex].Leaf != leafHash {
			m.violate("C09", "%s: enclosed leaf %d differs from the L1 info tree's leaf", what, l1.L1InfoTreeIndex)
		}
	}
}

func (m *mAgglayer) checkSignature(mc *mCert, desc string) {
	c := mc.Cert
	if m.expectFEP {
		pd, ok := c.AggchainData.(*agglayertypes.AggchainDataProof)
		if !ok || len(pd.Signature) != 65 {
			m.violate("C10", "%s carries no aggchain proof with a 65-byte signature", desc)
			return
		}
		commit := refFEPCommitment(c)
		pub, err := crypto.SigToPub(commit.Bytes(), normSig(pd.Signature))
		if err != nil || crypto.PubkeyToAddress(*pub) != m.signer {
			m.violate("C10", "%s: signature does not recover to the configured signer over the FEP commitment of the certificate's content", desc)
		}
		return
	}
	sd, ok := c.AggchainData.(*agglayertypes.AggchainDataSignature)
	if !ok || len(sd.Signature) != 65 {
		m.violate("C10", "%s carries no 65-byte signature", desc)
		return
	}
	commit := refPPCommitment(c)
	pub, err := crypto.SigToPub(commit.Bytes(), normSig(sd.Signature))
	if err != nil || crypto.PubkeyToAddress(*pub) != m.signer {
		m.violate("C10", "%s: signature does not recover to the configured signer over the commitment of the certificate's content", desc)
	}
}

func normSig(sig []byte) []byte {
	s := append([]byte{}, sig...)
	if s[64] >= 27 {
		s[64] -= 27
	}
	return s
}

// refPPCommitment recomputes the PP commitment from the certificate's content:
// keccak(new_local_exit_root ‖ keccak(‖ keccak(le32(global_index_i)))).
func refPPCommitment(c *agglayertypes.Certificate) common.Hash {
	var gi []byte
	for _, ib := range c.ImportedBridgeExits {
		x := ref.GlobalIndex(ib.GlobalIndex.MainnetFlag, ib.GlobalIndex.RollupIndex, ib.GlobalIndex.LeafIndex)
		gi = append(gi, crypto.Keccak256(le32(x))...)
	}
	return crypto.Keccak256Hash(c.NewLocalExitRoot.Bytes(), crypto.Keccak256(gi))
}

// checkSettledPrefix: settled certificates, in height order, contain every bridge exit and claim of the blocks they
// cover exactly once and in chain order.
func (m *mAgglayer) checkSettledPrefix() {
	var settled []*mCert
	for _, c := range m.certs {
		if c.Status == agglayertypes.Settled {
			settled = append(settled, c)
		}
	}
	var exits []*agglayertypes.BridgeExit
	var imps []*agglayertypes.ImportedBridgeExit
	last := uint64(0)
	for i, c := range settled {
		if c.Cert.Height != uint64(i) {
			m.violate("C02", "settled certificates do not have consecutive heights: #%d has height %d at position %d", c.Seq, c.Cert.Height, i)
		}
		exits = append(exits, c.Cert.BridgeExits...)
		imps = append(imps, c.Cert.ImportedBridgeExits...)
		if c.To > last {
			last = c.To
		}
	}
	brs, cls := m.w.eventsIn(1, last)
	if len(exits) != len(brs) || len(imps) != len(cls) {
		m.violate("C02", "settled certificates up to block %d carry %d exits / %d imported exits; the chain has %d bridges / %d claims there (lost or duplicated)", last, len(exits), len(imps), len(brs), len(cls))
		return
	}
	for i := range brs {
		if d := exitVsBridge(exits[i], brs[i]); d != "" {
			m.violate("C02", "settled exit %d is not the %d-th bridge of the chain: %s", i, i+1, d)
		}
	}
	for i := range cls {
		if d := importedVsClaim(imps[i], cls[i]); d != "" {
			m.violate("C02", "settled imported exit %d is not the %d-th claim of the chain: %s", i, i+1, d)
		}
	}
}

// ---- the node under test ----

type fakeEpoch struct {
	ch chan aggsendertypes.EpochEvent
}

func (f *fakeEpoch) Subscribe(string) <-chan aggsendertypes.EpochEvent { return f.ch }
func (f *fakeEpoch) Start(context.Context)                             {}
func (f *fakeEpoch) GetEpochStatus() aggsendertypes.EpochStatus {
	return aggsendertypes.EpochStatus{Epoch: 1, PercentEpoch: 0.5}
}
func (f *fakeEpoch) String() string { return "fakeEpoch" }

type fakeRollupData struct{}

func (fakeRollupData) GetRollupData(*big.Int) (polygonrollupmanager.PolygonRollupManagerRollupDataReturn, error) {
	return polygonrollupmanager.PolygonRollupManagerRollupDataReturn{}, nil
}

type nodeCfg struct {
	RetryImmediately bool
	MaxCertSize      uint
	MaxL2Block       uint64
	RequireBridge    bool
	Key              string // hex private key of the aggsender ("" = verifPrivKey)
}

func (nc nodeCfg) key() string {
	if nc.Key == "" {
		return verifPrivKey
	}
	return nc.Key
}

type asNode struct {
	a      *aggsender.AggSender
	epoch  *fakeEpoch
	dbPath string
}

func newASNode(w *jWorld, m agglayer.AgglayerClientInterface, dbPath string, nc nodeCfg) (*asNode, error) {
	cfg := config.Config{
		StoragePath:                     dbPath,
		AggsenderPrivateKey:             signer.NewMockSignerConfig(nc.key()),
		Mode:                            string(aggsendertypes.PessimisticProofMode),
		DelayBetweenRetries:             cfgtypes.NewDuration(time.Millisecond),
		MaxRetriesStoreCertificate:      3,
		CheckStatusCertificateInterval:  cfgtypes.NewDuration(time.Millisecond),
		RetryCertAfterInError:           nc.RetryImmediately,
		MaxCertSize:                     nc.MaxCertSize,
		MaxL2BlockNumber:                nc.MaxL2Block,
		RequireOneBridgeInPPCertificate: nc.RequireBridge,
		KeepCertificatesHistory:         true,
	}
	ep := &fakeEpoch{ch: make(chan aggsendertypes.EpochEvent, 1)}
	a, err := aggsender.New(bg, log.WithFields("module", "verif-aggsender"), cfg, m, w.l1store, w.l2store, ep, w.l1, nil, fakeRollupData{})
	if err != nil {
		return nil, err
	}
	return &asNode{a: a, epoch: ep, dbPath: dbPath}, nil
}

// step runs one iteration of the real send loop; a crash injected by the model Agglayer is reported as crashed=true
// (the instance must then be abandoned, as after a process death).
func (n *asNode) step(epochTick bool) (crashed string) {
	defer func() {
		if r := recover(); r != nil {
			if cs, ok := r.(crashSignal); ok {
				crashed = cs.at
				return
			}
			panic(r)
		}
	}()
	if epochTick {
		select {
		case n.epoch.ch <- aggsendertypes.EpochEvent{Epoch: 1}:
		default:
		}
	} else {
		select {
		case <-n.epoch.ch:
		default:
		}
	}
	n.a.VerifStep(bg, epochTick)
	return ""
}

// startup runs the node's start-up prologue. The reconciliation retries until it succeeds or its context ends, so a
// refusal is recognised by counting attempts, not by a wall-clock budget (which a busy machine would turn into false
// refusals): it returns nil on success, the first error the node reported once at least minAttempts reconciliation
// attempts have reached the model Agglayer, and an INCONCLUSIVE error if neither happens within 30 s.
func (n *asNode) startup(m *mAgglayer, minAttempts int) error {
	ctx, cancel := context.WithTimeout(bg, 30*time.Second)
	defer cancel()
	attempts := func() int {
		m.mu.Lock()
		defer m.mu.Unlock()
		return m.calls["GetLatestSettledCertificateHeader"]
	}
	base := attempts()
	done := make(chan error, 1)
	go func() { done <- n.a.VerifStartup(ctx) }()
	first, stale := "", n.a.VerifLastError()
	for {
		select {
		case err := <-done:
			if ctx.Err() != nil && first == "" {
				return fmt.Errorf("INCONCLUSIVE: start-up made %d reconciliation attempts in 30s and reported nothing", attempts()-base)
			}
			if err != nil && first != "" {
				return errors.New(first)
			}
			return err
		case <-time.After(300 * time.Microsecond):
			if e := n.a.VerifLastError(); first == "" && e != stale && e != "" {
				first = e
			}
			if first != "" && attempts()-base > minAttempts {
				cancel()
			}
		}
	}
}
