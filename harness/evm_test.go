package harness

import (
	"context"
	"encoding/binary"
	"encoding/json"
	"fmt"
	"math/big"
	"os"
	"strconv"
	"testing"
	"time"

	"github.com/0xPolygon/cdk-contracts-tooling/contracts/pp/l2-sovereign-chain/polygonzkevmglobalexitrootv2"
	"github.com/agglayer/aggkit/bridgesync"
	"github.com/agglayer/aggkit/l1infotreesync"
	"github.com/agglayer/aggkit/reorgdetector"
	"github.com/agglayer/aggkit/test/contracts/verifybatchesmock"
	"github.com/agglayer/aggkit/test/helpers"
	aggkittypes "github.com/agglayer/aggkit/types"
	"github.com/ethereum/go-ethereum/accounts/abi/bind"
	"github.com/ethereum/go-ethereum/common"
	"github.com/ethereum/go-ethereum/common/hexutil"
	"github.com/ethereum/go-ethereum/core/types"
	"github.com/ethereum/go-ethereum/crypto"
	"github.com/ethereum/go-ethereum/ethclient/simulated"
	"pgregory.net/rapid"

	"verifharness/ev"
	"verifharness/ref"
)

// EVM legs of C01 and C11: the public constructors (real downloader, appender, driver, processor) follow an in-process
// go-ethereum simulated chain running the REAL contract bytecode; node, reference model and contract must agree.
// These legs tie the reference models (ref.Frontier, ref.BridgeLeaf, ref.L1InfoLeaf, ref.Sparse) to the contracts.

// evmCases runs prop n times, each on a byte stream derived from the run's seed (no shrinking: cases are heavy; the
// failing case is printed and can be replayed with the same VERIF_SEED).
func evmCases(t *testing.T, n int, prop func(rt *rapid.T)) {
	seed, _ := strconv.ParseUint(os.Getenv("VERIF_SEED_EFFECTIVE"), 10, 64)
	if seed == 0 {
		seed = 1
	}
	f := rapid.MakeFuzz(prop)
	for i := 0; i < n; i++ {
		buf := make([]byte, 1<<16)
		x := seed*0x9E3779B97F4A7C15 + uint64(i)*0xBF58476D1CE4E5B9 + 1
		for k := 0; k+8 <= len(buf); k += 8 {
			x ^= x << 13
			x ^= x >> 7
			x ^= x << 17
			binary.LittleEndian.PutUint64(buf[k:], x)
		}
		ok := t.Run(fmt.Sprintf("case%d", i), func(st *testing.T) { f(st, buf) })
		if !ok {
			t.FailNow()
		}
	}
}

func evmCount() int {
	if thorough() {
		return 3
	}
	return 1
}

// traceClient answers debug_traceTransaction with the transaction's own top-level call (deposits are sent directly to the bridge).
type traceClient struct {
	simulated.Client
	from common.Address
}

func (c *traceClient) Call(result any, method string, args ...any) error {
	if method != "debug_traceTransaction" || len(args) == 0 {
		return fmt.Errorf("unsupported rpc %s", method)
	}
	h, ok := args[0].(common.Hash)
	if !ok {
		return fmt.Errorf("bad argument %T", args[0])
	}
	tx, _, err := c.TransactionByHash(context.Background(), h)
	if err != nil {
		return err
	}
	frame := map[string]any{"from": c.from, "to": tx.To(), "value": "0x0", "input": hexutil.Bytes(tx.Data())}
	b, _ := json.Marshal(frame)
	return json.Unmarshal(b, result)
}

type noReorgs struct{}

func (noReorgs) Subscribe(string) (*reorgdetector.Subscription, error) {
	return &reorgdetector.Subscription{ReorgedBlock: make(chan uint64), ReorgProcessed: make(chan bool)}, nil
}
func (noReorgs) AddBlockToTrack(context.Context, string, uint64, common.Hash) error { return nil }
func (noReorgs) GetFinalizedBlockType() aggkittypes.BlockNumberFinality {
	return aggkittypes.FinalizedBlock
}
func (noReorgs) String() string { return "none" }
func (noReorgs) GetLastReorgEvent(context.Context) (reorgdetector.ReorgEvent, error) {
	return reorgdetector.ReorgEvent{}, nil
}

// sealAll commits a block and makes sure every transaction sent since the last call is mined successfully: under load the
// simulated backend's pool can promote a transaction after the block was sealed, which then lands in the next block. A
// reverted or never-mined transaction makes the case INCONCLUSIVE (the harness, not the node, is at fault). Returns the
// highest block that holds one of the transactions.
func sealAll(client interface {
	Commit() common.Hash
	Client() simulated.Client
}, txs []*types.Transaction) (uint64, error) {
	client.Commit()
	last := uint64(0)
	for _, tx := range txs {
		var rc *types.Receipt
		for try := 0; ; try++ {
			var err error
			rc, err = client.Client().TransactionReceipt(bg, tx.Hash())
			if err == nil && rc != nil {
				break
			}
			if try > 200 {
				return 0, fmt.Errorf("transaction %s never mined: %v", tx.Hash(), err)
			}
			time.Sleep(5 * time.Millisecond)
			client.Commit()
		}
		if rc.Status != types.ReceiptStatusSuccessful {
			return 0, fmt.Errorf("transaction %s reverted", tx.Hash())
		}
		if rc.BlockNumber.Uint64() > last {
			last = rc.BlockNumber.Uint64()
		}
	}
	return last, nil
}

// waitPool waits until the simulated backend's transaction pool has caught up with the last sealed block (its pending
// nonce for addr equals the state nonce); the pool resets asynchronously and lags under load.
func waitPool(client interface{ Client() simulated.Client }, addr common.Address) {
	for i := 0; i < 2000; i++ {
		p, e1 := client.Client().PendingNonceAt(bg, addr)
		n, e2 := client.Client().NonceAt(bg, addr, nil)
		if e1 == nil && e2 == nil && p == n {
			return
		}
		time.Sleep(time.Millisecond)
	}
}

func waitProcessed(get func() (uint64, error), target uint64) error {
	dl := time.Now().Add(180 * time.Second)
	for time.Now().Before(dl) {
		n, err := get()
		if err == nil && n >= target {
			return nil
		}
		time.Sleep(2 * time.Millisecond)
	}
	return fmt.Errorf("INCONCLUSIVE: syncer did not reach block %d within 180s", target)
}

// ---- C01 EVM leg ----

func TestC01EVM(t *testing.T) {
	rec := ev.For("C01", c01Rule)
	evmCases(t, evmCount(), func(rt *rapid.T) {
		deployer, err := helpers.CreateAccount(big.NewInt(1337))
		if err != nil {
			rt.Fatalf("INCONCLUSIVE: %v", err)
		}
		client, setup := helpers.NewSimulatedBackend(t, nil, deployer)
		defer client.Close()
		nonce, _ := client.Client().PendingNonceAt(bg, deployer.From)
		gerAddr := crypto.CreateAddress(deployer.From, nonce+2)
		if err := setup.DeployBridge(client, gerAddr, 0); err != nil {
			rt.Fatalf("INCONCLUSIVE: deploy bridge: %v", err)
		}
		if _, _, _, err := polygonzkevmglobalexitrootv2.DeployPolygonzkevmglobalexitrootv2(deployer, client.Client(), setup.UserAuth.From, setup.BridgeProxyAddr); err != nil {
			rt.Fatalf("INCONCLUSIVE: deploy GER: %v", err)
		}
		client.Commit()
		waitPool(client, setup.UserAuth.From)
		bridge := setup.BridgeProxyContract
		path, clean := tmpDB("c01evm")
		defer clean()
		tc := &traceClient{Client: client.Client(), from: setup.UserAuth.From}
		var syncer *bridgesync.BridgeSync
		var cancel context.CancelFunc
		var stopped chan struct{}
		startSyncer := func() {
			var ctx context.Context
			ctx, cancel = context.WithCancel(bg)
			s, err := bridgesync.NewL1(ctx, path, setup.BridgeProxyAddr, uint64(rapid.SampledFrom([]int{1, 3, 10, 100}).Draw(rt, "chunk")), aggkittypes.LatestBlock, noReorgs{}, tc, 0,
				time.Millisecond, time.Millisecond, -1, 0, false, false)
			if err != nil {
				rt.Fatalf("NewL1: %v", err)
			}
			syncer = s
			done := make(chan struct{})
			stopped = done
			go func() { s.Start(ctx); close(done) }()
		}
		startSyncer()
		defer func() { cancel() }()
		front := &ref.Frontier{}
		var deps []bridgesync.Bridge
		var roots []common.Hash
		nBlocks := rapid.IntRange(8, 25).Draw(rt, "nBlocks")
		restarts := 0
		nextNonce, err := client.Client().PendingNonceAt(bg, setup.UserAuth.From)
		if err != nil {
			rt.Fatalf("INCONCLUSIVE: nonce: %v", err)
		}
		lastEventBlock := uint64(0)
		for b := 0; b < nBlocks; b++ {
			n := rapid.SampledFrom([]int{0, 1, 1, 2, 3, 5}).Draw(rt, "perBlock")
			var sent []*types.Transaction
			for i := 0; i < n; i++ {
				destNet := rapid.SampledFrom([]uint32{1, 2, 1 << 31, 1<<32 - 1}).Draw(rt, "destNet")
				destAddr := genAddr.Draw(rt, "destAddr")
				amount := rapid.SampledFrom([]*big.Int{big.NewInt(0), big.NewInt(1), big.NewInt(1e9), new(big.Int).Lsh(big.NewInt(1), 70)}).Draw(rt, "amount")
				auth := *setup.UserAuth
				auth.Value = amount
				auth.GasLimit = 3_000_000
				// explicit nonces: under load the pool's pending nonce can lag a transaction that was just sent
				auth.Nonce = new(big.Int).SetUint64(nextNonce)
				nextNonce++
				d := bridgesync.Bridge{DestinationNetwork: destNet, DestinationAddress: destAddr, Amount: amount, DepositCount: uint32(len(deps))}
				if rapid.Bool().Draw(rt, "message") {
					meta := genMeta.Draw(rt, "metadata")
					if len(meta) > 600 {
						meta = meta[:600]
					}
					tx, err := bridge.BridgeMessage(&auth, destNet, destAddr, rapid.Bool().Draw(rt, "forceGER"), meta)
					if err != nil {
						rt.Fatalf("INCONCLUSIVE: bridgeMessage: %v", err)
					}
					sent = append(sent, tx)
					d.LeafType, d.OriginNetwork, d.OriginAddress, d.Metadata = 1, 0, setup.UserAuth.From, meta
				} else {
					if amount.Sign() == 0 {
						amount = big.NewInt(7)
						auth.Value, d.Amount = amount, amount
					}
					tx, err := bridge.BridgeAsset(&auth, destNet, destAddr, amount, common.Address{}, rapid.Bool().Draw(rt, "forceGER"), nil)
					if err != nil {
						rt.Fatalf("INCONCLUSIVE: bridgeAsset: %v", err)
					}
					sent = append(sent, tx)
					d.LeafType = 0 // native token: origin network 0, origin address 0, empty metadata
				}
				deps = append(deps, d)
				front.Add(refBridgeLeaf(d))
				roots = append(roots, front.Root())
			}
			lb, err := sealAll(client, sent)
			if err != nil {
				rt.Fatalf("INCONCLUSIVE: %v", err)
			}
			if n > 0 {
				lastEventBlock = lb
			}
			// contract vs reference at the end of every block
			cr, err := bridge.GetRoot(nil)
			if err != nil {
				rt.Fatalf("INCONCLUSIVE: getRoot: %v", err)
			}
			if common.Hash(cr) != front.Root() {
				rt.Fatalf("reference frontier root %s differs from the bridge contract's getRoot() %s after %d deposits (harness reference is wrong)", front.Root(), common.Hash(cr), len(deps))
			}
			if dc, _ := bridge.DepositCount(nil); dc.Uint64() != uint64(len(deps)) {
				rt.Fatalf("INCONCLUSIVE: contract deposit count %v vs %d", dc, len(deps))
			}
			if rapid.IntRange(0, 6).Draw(rt, "restart") == 0 {
				// a restart is a new process: the old instance must be gone before the new one opens the same database
				cancel()
				select {
				case <-stopped:
				case <-time.After(30 * time.Second):
					rt.Fatalf("INCONCLUSIVE: the stopped syncer instance did not return within 30s")
				}
				startSyncer()
				restarts++
			}
		}
		client.Commit()
		hdr, _ := client.Client().HeaderByNumber(bg, nil)
		// blocks without events above the finalized block are not reported to the store: wait for the last event block
		if err := waitProcessed(func() (uint64, error) { return syncer.GetLastProcessedBlock(bg) }, lastEventBlock); err != nil {
			rt.Fatalf("%v", err)
		}
		for i, d := range deps {
			r, err := syncer.GetExitRootByIndex(bg, uint32(i))
			if err != nil || r.Hash != roots[i] {
				rt.Fatalf("deposit count %d: node exit root %s (%v), contract algorithm %s", i, r.Hash, err, roots[i])
			}
			mh := crypto.Keccak256Hash(d.Metadata)
			lv, err := bridge.GetLeafValue(nil, d.LeafType, d.OriginNetwork, d.OriginAddress, d.DestinationNetwork, d.DestinationAddress, d.Amount, mh)
			if err != nil || common.Hash(lv) != refBridgeLeaf(d) {
				rt.Fatalf("reference leaf differs from the contract's getLeafValue for deposit %d (harness reference is wrong)", i)
			}
		}
		_ = hdr
		got, err := syncer.GetBridges(bg, 0, lastEventBlock)
		if err != nil || len(got) != len(deps) {
			rt.Fatalf("GetBridges returned %d deposits (%v), the contract took %d", len(got), err, len(deps))
		}
		for i := range deps {
			g := got[i]
			if g.Hash() != refBridgeLeaf(deps[i]) || g.DepositCount != uint32(i) {
				rt.Fatalf("deposit %d: node leaf %s, contract leaf %s", i, g.Hash(), refBridgeLeaf(deps[i]))
			}
		}
		// extreme field values through the contract's pure getLeafValue
		for k := 0; k < 20; k++ {
			d := genBridge(rt)
			lv, err := bridge.GetLeafValue(nil, d.LeafType, d.OriginNetwork, d.OriginAddress, d.DestinationNetwork, d.DestinationAddress, d.Amount, crypto.Keccak256Hash(d.Metadata))
			if err != nil {
				rt.Fatalf("INCONCLUSIVE: getLeafValue: %v", err)
			}
			if common.Hash(lv) != d.Hash() || common.Hash(lv) != refBridgeLeaf(d) {
				rt.Fatalf("leaf value for generated fields: contract %s, node %s, reference %s", common.Hash(lv), d.Hash(), refBridgeLeaf(d))
			}
		}
		rec.Case(len(deps) >= 2, fmt.Sprintf("evm|%d|%d", len(deps), restarts))
		rec.Class("evm_leg_cases")
		rec.ClassN("evm_leg_deposits", len(deps))
		if rec.WantSample() {
			rec.Sample(map[string]any{"leg": "EVM: real PolygonZkEVMBridgeV2 + public bridgesync.NewL1", "deposits": len(deps), "blocks": nBlocks, "restarts": restarts})
		}
	})
}

// ---- C11 EVM leg ----

func TestC11EVM(t *testing.T) {
	rec := ev.For("C11", c11Rule)
	evmCases(t, evmCount(), func(rt *rapid.T) {
		deployer, err := helpers.CreateAccount(big.NewInt(1337))
		if err != nil {
			rt.Fatalf("INCONCLUSIVE: %v", err)
		}
		client, setup := helpers.NewSimulatedBackend(t, nil, deployer)
		defer client.Close()
		auth := setup.UserAuth
		waitPool(client, auth.From)
		nonce, _ := client.Client().PendingNonceAt(bg, auth.From)
		gerPre := crypto.CreateAddress(auth.From, nonce+1)
		verifyAddr, _, verifySC, err := verifybatchesmock.DeployVerifybatchesmock(auth, client.Client(), gerPre)
		if err != nil {
			rt.Fatalf("INCONCLUSIVE: %v", err)
		}
		client.Commit()
		waitPool(client, auth.From)
		gerAddr, _, gerSC, err := polygonzkevmglobalexitrootv2.DeployPolygonzkevmglobalexitrootv2(auth, client.Client(), verifyAddr, auth.From)
		if err != nil || gerAddr != gerPre {
			rt.Fatalf("INCONCLUSIVE: deploy GER: %v", err)
		}
		client.Commit()
		waitPool(client, auth.From)
		path, clean := tmpDB("c11evm")
		defer clean()
		ctx, cancel := context.WithCancel(bg)
		defer cancel()
		syncer, err := l1infotreesync.New(ctx, path, gerAddr, verifyAddr, uint64(rapid.SampledFrom([]int{1, 4, 50}).Draw(rt, "chunk")), aggkittypes.LatestBlock, noReorgs{}, client.Client(),
			time.Millisecond, 0, time.Millisecond, -1, l1infotreesync.FlagAllowWrongContractsAddrs, aggkittypes.FinalizedBlock, false)
		if err != nil {
			rt.Fatalf("l1infotreesync.New: %v", err)
		}
		go syncer.Start(ctx)
		sparse := ref.NewSparse()
		vals := map[uint32]common.Hash{}
		effective := 0
		nBlocks := rapid.IntRange(8, 30).Draw(rt, "nBlocks")
		ta := *auth
		ta.GasLimit = 3_000_000
		nextNonce, err := client.Client().PendingNonceAt(bg, auth.From)
		if err != nil {
			rt.Fatalf("INCONCLUSIVE: nonce: %v", err)
		}
		useNonce := func() {
			ta.Nonce = new(big.Int).SetUint64(nextNonce)
			nextNonce++
		}
		lastEventBlock := uint64(0)
		for b := 0; b < nBlocks; b++ {
			nTx := rapid.SampledFrom([]int{0, 1, 1, 2, 4}).Draw(rt, "perBlock")
			var sent []*types.Transaction
			for i := 0; i < nTx; i++ {
				if rapid.Bool().Draw(rt, "mainnetUpdate") {
					useNonce()
					tx, err := gerSC.UpdateExitRoot(&ta, genHash.Draw(rt, "mer"))
					if err != nil {
						rt.Fatalf("INCONCLUSIVE: updateExitRoot: %v", err)
					}
					sent = append(sent, tx)
				} else {
					id := uint32(rapid.IntRange(1, 64).Draw(rt, "rollupID"))
					var ler common.Hash
					switch rapid.IntRange(0, 4).Draw(rt, "lerKind") {
					case 0:
						// zero exit root: only for a rollup that has none yet (the contract would overwrite a non-zero
						// value with zero, which real exit roots never do; the node keeps the last non-zero value)
						ler = vals[id]
					case 1:
						ler = vals[id]
					default:
						ler = genHash.Draw(rt, "ler")
					}
					useNonce()
					tx, err := verifySC.VerifyBatches(&ta, id, uint64(b), ler, genHash.Draw(rt, "stateRoot"), rapid.Bool().Draw(rt, "updateGER"))
					if err != nil {
						rt.Fatalf("INCONCLUSIVE: verifyBatches: %v", err)
					}
					sent = append(sent, tx)
					if ler != (common.Hash{}) && vals[id] != ler {
						effective++
					}
					vals[id] = ler
					if ler != (common.Hash{}) {
						sparse.Set(id-1, ler)
					}
				}
			}
			lb, err := sealAll(client, sent)
			if err != nil {
				rt.Fatalf("INCONCLUSIVE: %v", err)
			}
			if nTx > 0 {
				lastEventBlock = lb
			}
		}
		client.Commit()
		if err := waitProcessed(func() (uint64, error) { return syncer.GetLastProcessedBlock(bg) }, lastEventBlock); err != nil {
			rt.Fatalf("%v", err)
		}
		// L1 info tree vs the GER contract
		cnt, err := gerSC.DepositCount(nil)
		if err != nil {
			rt.Fatalf("INCONCLUSIVE: %v", err)
		}
		front := &ref.Frontier{}
		for i := uint32(0); i < uint32(cnt.Uint64()); i++ {
			leaf, err := syncer.GetInfoByIndex(bg, i)
			if err != nil {
				rt.Fatalf("the contract holds %d leaves, the node lacks leaf %d: %v", cnt, i, err)
			}
			lv, err := gerSC.GetLeafValue(nil, leaf.GlobalExitRoot, new(big.Int).SetBytes(leaf.PreviousBlockHash[:]), leaf.Timestamp)
			if err != nil || common.Hash(lv) != leaf.Hash {
				rt.Fatalf("leaf %d: node hash %s, contract getLeafValue %s", i, leaf.Hash, common.Hash(lv))
			}
			if leaf.Hash != ref.L1InfoLeaf(ref.GER(leaf.MainnetExitRoot, leaf.RollupExitRoot), leaf.PreviousBlockHash, leaf.Timestamp) {
				rt.Fatalf("leaf %d: reference leaf formula disagrees with the contract (harness reference is wrong)", i)
			}
			front.Add(leaf.Hash)
			cr, err := gerSC.L1InfoRootMap(nil, i+1)
			if err != nil {
				rt.Fatalf("INCONCLUSIVE: %v", err)
			}
			nr, err := syncer.GetL1InfoTreeRootByIndex(bg, i)
			if err != nil || nr.Hash != common.Hash(cr) || front.Root() != common.Hash(cr) {
				rt.Fatalf("root after leaf %d: node %s (%v), contract l1InfoRootMap %s, reference %s", i, nr.Hash, err, common.Hash(cr), front.Root())
			}
			byGer, err := syncer.GetInfoByGlobalExitRoot(leaf.GlobalExitRoot)
			if err != nil || byGer.L1InfoTreeIndex != i {
				rt.Fatalf("lookup by GER of leaf %d: %v %v", i, byGer, err)
			}
		}
		if _, err := syncer.GetInfoByIndex(bg, uint32(cnt.Uint64())); err == nil {
			rt.Fatalf("the node holds more leaves than the contract's %d", cnt)
		}
		// rollup exit tree vs the rollup manager mock
		if effective > 0 {
			cr, err := verifySC.GetRollupExitRoot(nil)
			if err != nil {
				rt.Fatalf("INCONCLUSIVE: %v", err)
			}
			if common.Hash(cr) != sparse.Root() {
				rt.Fatalf("reference sparse tree root %s differs from the rollup manager's getRollupExitRoot %s (harness reference is wrong)", sparse.Root(), common.Hash(cr))
			}
			nr, err := syncer.GetLastRollupExitRoot(bg)
			if err != nil || nr.Hash != common.Hash(cr) {
				rt.Fatalf("rollup exit root: node %s (%v), rollup manager %s", nr.Hash, err, common.Hash(cr))
			}
			for id, v := range vals {
				if v == (common.Hash{}) {
					continue
				}
				got, err := syncer.GetLocalExitRoot(bg, id, nr.Hash)
				cv, _ := verifySC.RollupIDToLastExitRoot(nil, id)
				if err != nil || got != v || common.Hash(cv) != v {
					rt.Fatalf("rollup %d: node %s (%v), rollup manager %s, expected %s", id, got, err, common.Hash(cv), v)
				}
			}
		}
		rec.Case(cnt.Uint64() >= 2, fmt.Sprintf("evm|%d|%d", cnt, effective))
		rec.Class("evm_leg_cases")
		rec.ClassN("evm_leg_leaves", int(cnt.Uint64()))
		if rec.WantSample() {
			rec.Sample(map[string]any{"leg": "EVM: real PolygonZkEVMGlobalExitRootV2 + VerifyBatchesMock + public l1infotreesync.New", "leaves": cnt.Uint64(), "blocks": nBlocks})
		}
		_ = bind.CallOpts{}
	})
}
