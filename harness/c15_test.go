package harness

import (
	"context"
	"errors"
	"fmt"
	"strings"
	"testing"
	"time"

	"github.com/agglayer/aggkit/aggoracle"
	"github.com/agglayer/aggkit/l1infotreesync"
	"github.com/agglayer/aggkit/log"
	aggkitsync "github.com/agglayer/aggkit/sync"
	aggkittypes "github.com/agglayer/aggkit/types"
	"github.com/ethereum/go-ethereum/common"
	"github.com/ethereum/go-ethereum/core/types"
	"pgregory.net/rapid"

	"verifharness/ev"
	"verifharness/fakechain"
	"verifharness/ref"
)

// C15 — the GER oracle injects only finalized, current, not-yet-present roots.

const c15Rule = "case = L1 history (info leaves at generated blocks) and a schedule over {L1 produces blocks / finality advances, the info " +
	"tree syncer processes the next k blocks (lagging or ahead of finality), L1 reorg above the finalized block (the syncer is rewound and sees the new fork later), oracle tick, transient error of HeaderByNumber / " +
	"GetLatestInfoUntilBlock / IsGERInjected / InjectGER, external injection on L2}; the real AggOracle tick body runs over the " +
	"real L1 info store; oracle: safety = every injected GER is the GER of the latest leaf at or below a block that the L1 " +
	"client reported as finalized to this oracle, and was not already on L2; bounded progress = once the syncer has processed " +
	"a finalized block that the oracle sampled (and a leaf exists at or below it), a fault-free tick ends with that GER or a " +
	"newer one on L2; non-trivial = >=2 injections with >=1 tick where the syncer was behind the sampled block; distinct = hash of the schedule"

const c15SigStarve = "kind=sampled-finalized-block-forgotten-when-syncer-behind (oracle starves under a syncer that lags finality at every tick)"

type c15Sender struct {
	onL2     map[common.Hash]bool
	injected []common.Hash
	failIs   int
	failInj  int
	calls    []string
}

func (s *c15Sender) IsGERInjected(g common.Hash) (bool, error) {
	if s.failIs > 0 {
		s.failIs--
		return false, errors.New("injected: IsGERInjected failed")
	}
	return s.onL2[g], nil
}
func (s *c15Sender) InjectGER(_ context.Context, g common.Hash) error {
	if s.failInj > 0 {
		s.failInj--
		return errors.New("injected: InjectGER failed")
	}
	s.calls = append(s.calls, g.Hex())
	s.injected = append(s.injected, g)
	s.onL2[g] = true
	return nil
}

type c15Info struct {
	s    *l1infotreesync.L1InfoTreeSync
	fail int
}

func (i *c15Info) GetLatestInfoUntilBlock(ctx context.Context, n uint64) (*l1infotreesync.L1InfoTreeLeaf, error) {
	if i.fail > 0 {
		i.fail--
		return nil, errors.New("injected: GetLatestInfoUntilBlock failed")
	}
	return i.s.GetLatestInfoUntilBlock(ctx, n)
}

type c15Leaf struct {
	Block uint64
	GER   common.Hash
	Idx   int
}

func c15Prop(rt *rapid.T, rec *ev.Recorder) {
	chain := fakechain.New()
	path, clean := tmpDB("c15")
	defer clean()
	store, err := l1infotreesync.NewVerif(path)
	if err != nil {
		fatal(rt, "open: %v", err)
	}
	defer func() { _ = store.VerifClose() }()
	sender := &c15Sender{onL2: map[common.Hash]bool{}}
	info := &c15Info{s: store}
	or, err := aggoracle.New(log.WithFields("module", "c15"), sender, chain, info, aggkittypes.FinalizedBlock, time.Hour)
	if err != nil {
		fatal(rt, "aggoracle.New: %v", err)
	}
	var (
		leaves     []c15Leaf          // all leaves on the chain (processed or not)
		pending    []aggkitsync.Block // L1 blocks not yet processed by the syncer
		processed  uint64             // last block processed by the syncer
		finalized  uint64
		sampled    = map[uint64]bool{} // finalized blocks reported to the oracle
		owed       = map[uint64]bool{} // finalized blocks sampled in the current fault-free stretch (progress oracle)
		tickSample = map[uint64]bool{}
		failHeader int
		tickFault  bool
		sticky     uint64
		trace      []string
		behindTick bool
		caughtUp   int    // consecutive fault-free ticks with the syncer at or past an unchanged finalized block
		caughtFin  uint64 // the finalized block of that streak
		forkSalt   byte
		reorgs     int
		delivered  []uint64 // blocks recorded by the store
	)
	chain.Hook = func(ch *fakechain.Chain, call fakechain.Call) error {
		if call.Method == "HeaderByNumber" {
			if failHeader > 0 {
				failHeader--
				tickFault = true
				return errors.New("injected: HeaderByNumber failed")
			}
			if call.Tag == "finalized" {
				sampled[ch.FinalizedLocked()] = true
				tickSample[ch.FinalizedLocked()] = true
			}
		}
		return nil
	}
	latestLeafUpTo := func(b uint64) *c15Leaf {
		var out *c15Leaf
		for i := range leaves {
			if leaves[i].Block <= b {
				out = &leaves[i]
			}
		}
		return out
	}
	nSteps := rapid.IntRange(10, 120).Draw(rt, "steps")
	for step := 0; step < nSteps; step++ {
		switch rapid.SampledFrom([]string{"l1", "l1", "final", "final", "sync", "sync", "tick", "tick", "tick", "tick", "fault", "external", "reorg"}).Draw(rt, "op") {
		case "reorg":
			// L1 replaces its blocks from f on (f above the finalized block, hence above every block reported as finalized to
			// the oracle); the info tree syncer is rewound if it had processed any of them and will see the new fork later
			tip := chain.Tip()
			if tip <= finalized {
				continue
			}
			f := finalized + 1 + uint64(rapid.IntRange(0, int(tip-finalized-1)).Draw(rt, "forkDepth"))
			var keptLeaves []c15Leaf
			for _, l := range leaves {
				if l.Block < f {
					keptLeaves = append(keptLeaves, l)
				}
			}
			leaves = keptLeaves
			var keptPending []aggkitsync.Block
			for _, b := range pending {
				if b.Num < f {
					keptPending = append(keptPending, b)
				}
			}
			pending = keptPending
			if processed >= f {
				if rapid.Bool().Draw(rt, "abandonedQueryBeforeReorg") {
					// a reader gives up on a query of the syncer's store right before the reorg is handled (its pooled
					// connection is discarded by database/sql; the reorg runs on a fresh one)
					_, _ = store.GetLatestInfoUntilBlock(newScriptedCtx(rapid.IntRange(1, 4).Draw(rt, "abandonAt")), processed)
				}
				if err := store.VerifReorg(bg, f); err != nil {
					fatal(rt, "INCONCLUSIVE: store refused a reorg: %v", err)
				}
				for len(delivered) > 0 && delivered[len(delivered)-1] >= f {
					delivered = delivered[:len(delivered)-1]
				}
				processed = 0
				if len(delivered) > 0 {
					processed = delivered[len(delivered)-1]
				}
			}
			nNew := int(tip-f) + 1 + rapid.IntRange(0, 2).Draw(rt, "forkGrowth")
			var suffix [][]types.Log
			for i := 0; i < nNew; i++ {
				suffix = append(suffix, nil)
			}
			chain.Fork(f, suffix)
			forkSalt++
			for num := f; num <= chain.Tip(); num++ {
				parent := chain.HashOf(num - 1)
				var evs []interface{}
				for k, nl := 0, rapid.SampledFrom([]int{0, 0, 1, 1, 2}).Draw(rt, "nLeaves"); k < nl; k++ {
					evs = c15Verify(rt, evs, num)
					mer, rer := common.Hash{0x33, byte(num), byte(k), byte(len(leaves)), forkSalt}, common.Hash{0x44, byte(num >> 8), byte(k), forkSalt}
					evs = append(evs, l1infotreesync.Event{UpdateL1InfoTree: &l1infotreesync.UpdateL1InfoTree{BlockPosition: uint64(len(evs)), MainnetExitRoot: mer, RollupExitRoot: rer, ParentHash: parent, Timestamp: num}})
					leaves = append(leaves, c15Leaf{Block: num, GER: ref.GER(mer, rer), Idx: len(leaves)})
				}
				pending = append(pending, aggkitsync.Block{Num: num, Hash: chain.HashOf(num), Events: evs})
			}
			chain.SetPointers(chain.Tip(), chain.Tip(), finalized)
			reorgs++
			trace = append(trace, fmt.Sprintf("reorg@%d(+%d)", f, nNew))
		case "l1":
			n := rapid.IntRange(1, 3).Draw(rt, "nBlocks")
			for i := 0; i < n; i++ {
				parent := chain.HashOf(chain.Tip())
				num := chain.Extend(nil)
				var evs []interface{}
				for k, nl := 0, rapid.SampledFrom([]int{0, 0, 1, 1, 2}).Draw(rt, "nLeaves"); k < nl; k++ {
					evs = c15Verify(rt, evs, num)
					mer, rer := common.Hash{0x11, byte(num), byte(k), byte(len(leaves))}, common.Hash{0x22, byte(num >> 8), byte(k)}
					evs = append(evs, l1infotreesync.Event{UpdateL1InfoTree: &l1infotreesync.UpdateL1InfoTree{BlockPosition: uint64(len(evs)), MainnetExitRoot: mer, RollupExitRoot: rer, ParentHash: parent, Timestamp: num}})
					leaves = append(leaves, c15Leaf{Block: num, GER: ref.GER(mer, rer), Idx: len(leaves)})
				}
				pending = append(pending, aggkitsync.Block{Num: num, Hash: chain.HashOf(num), Events: evs})
			}
			chain.SetPointers(chain.Tip(), chain.Tip(), finalized)
			trace = append(trace, fmt.Sprintf("l1+%d", n))
		case "final":
			finalized = min64(chain.Tip(), finalized+uint64(rapid.IntRange(1, 4).Draw(rt, "dFin")))
			chain.SetPointers(chain.Tip(), chain.Tip(), finalized)
			trace = append(trace, fmt.Sprintf("fin=%d", finalized))
		case "sync":
			// like the real downloader, the syncer hands over the blocks that carry events and the last block of the range
			// it fetched; the event-less blocks in between are never recorded
			k := rapid.IntRange(1, 4).Draw(rt, "k")
			for i := 0; i < k && len(pending) > 0; i++ {
				last := i == k-1 || len(pending) == 1
				if len(pending[0].Events) > 0 || last {
					if err := store.VerifProcessBlock(bg, pending[0]); err != nil {
						if reorgs > 0 {
							fatal(rt, "after an L1 reorg the L1 info store refuses the next valid block of the canonical chain (%v): the syncer is stuck and the oracle can no longer learn newer finalized roots\n  schedule: %v", err, trace)
						}
						fatal(rt, "INCONCLUSIVE: store refused a valid block: %v", err)
					}
					processed = pending[0].Num
					delivered = append(delivered, processed)
				}
				pending = pending[1:]
			}
			trace = append(trace, fmt.Sprintf("sync=%d", processed))
		case "fault":
			switch rapid.IntRange(0, 3).Draw(rt, "faultKind") {
			case 0:
				failHeader++
			case 1:
				info.fail++
			case 2:
				sender.failIs++
			default:
				sender.failInj++
			}
			trace = append(trace, "fault")
		case "external":
			if l := latestLeafUpTo(chain.Tip()); l != nil && rapid.Bool().Draw(rt, "extLatest") {
				sender.onL2[l.GER] = true
				trace = append(trace, fmt.Sprintf("ext(leaf%d)", l.Idx))
			}
		case "tick":
			// ticks while the finalized block is still genesis are part of the domain: block 0 is never a valid target for
			// the store, so such a tick must not inject anything (no leaf is at or below a finalized block yet)
			tickFault = info.fail > 0 || sender.failIs > 0 || sender.failInj > 0 || failHeader > 0
			before := len(sender.injected)
			wasOnL2 := map[common.Hash]bool{}
			for g := range sender.onL2 {
				wasOnL2[g] = true
			}
			procAtStart := processed
			tickSample = map[uint64]bool{}
			tickErr := or.VerifTick(bg, &sticky)
			if tickFault {
				owed = map[uint64]bool{} // a failed dependency may legitimately make the oracle forget what it sampled
			} else {
				for f := range tickSample {
					owed[f] = true
				}
			}
			if tickErr != nil && strings.Contains(tickErr.Error(), "not been processed") {
				behindTick = true
			}
			// safety
			for _, g := range sender.injected[before:] {
				if wasOnL2[g] {
					fatal(rt, "the oracle injected GER %s which the L2 contract already had\n  schedule: %v", g.Hex()[:12], trace)
				}
				ok := false
				for f := range sampled {
					if l := latestLeafUpTo(min64(f, procAtStart)); l != nil && f <= procAtStart && l.GER == g {
						ok = true
					}
				}
				if !ok {
					fatal(rt, "the oracle injected GER %s which is not the latest L1 info root at or below any block reported as finalized to it (sampled finalized blocks %v, syncer at %d)\n  schedule: %v", g.Hex()[:12], keysOf(sampled), procAtStart, trace)
				}
			}
			trace = append(trace, fmt.Sprintf("tick(inj=%d,err=%v)", len(sender.injected)-before, tickErr != nil))
			// bounded progress, second rule: while the syncer is caught up with an unchanged finalized block, two fault-free
			// ticks are enough for any implementation that "keeps injecting newer finalized roots" (one tick may be spent
			// on a target remembered from the time the syncer was behind)
			if !tickFault && procAtStart >= finalized {
				if caughtUp > 0 && caughtFin == finalized {
					caughtUp++
				} else {
					caughtUp, caughtFin = 1, finalized
				}
				if l := latestLeafUpTo(finalized); l != nil && caughtUp >= 2 {
					have := false
					for _, x := range leaves {
						if x.Idx >= l.Idx && sender.onL2[x.GER] {
							have = true
						}
					}
					if !have {
						fatal(rt, "finalized block %d has been stable and processed by the syncer for %d consecutive fault-free ticks, its latest L1 info root (leaf %d) is not on L2 and the oracle does not inject it (it no longer looks at finality)\n  schedule: %v", finalized, caughtUp, l.Idx, trace)
					}
				}
			} else {
				caughtUp = 0
			}
			// bounded progress
			if !tickFault {
				var best *c15Leaf
				for f := range owed {
					if f <= procAtStart {
						if l := latestLeafUpTo(f); l != nil && (best == nil || l.Idx > best.Idx) {
							best = l
						}
					}
				}
				if best != nil {
					have := false
					for _, l := range leaves {
						if l.Idx >= best.Idx && sender.onL2[l.GER] {
							have = true
						}
					}
					if !have {
						msg := fmt.Sprintf("the oracle sampled finalized blocks %v (fault-free ticks); the info tree syncer has since processed block %d, leaf %d (block %d) is at or below a sampled finalized block, "+
							"yet after a fault-free tick neither its GER nor a newer one is on L2 (tick error: %v)\n  schedule: %v", keysOf(owed), procAtStart, best.Idx, best.Block, tickErr, trace)
						if rec.IsKnown(c15SigStarve) {
							rec.Class("excluded_known_starvation")
							rec.Case(false, fmt.Sprint(trace))
							return
						}
						fatal(rt, "%s\n  [signature: %s]", msg, c15SigStarve)
					}
				}
			}
		}
	}
	nt := len(sender.injected) >= 2 && behindTick
	rec.Case(nt, fmt.Sprint(trace))
	rec.ClassN("injections", len(sender.injected))
	rec.ClassN("l1_reorgs_above_the_finalized_block", reorgs)
	if behindTick {
		rec.Class("schedules_with_syncer_behind_tick")
	}
	if nt && rec.WantSample() {
		rec.Sample(map[string]any{"schedule": trace, "injections": len(sender.injected)})
	}
}

func keysOf(m map[uint64]bool) []uint64 {
	var out []uint64
	for k := range m {
		out = append(out, k)
	}
	for i := 1; i < len(out); i++ {
		for j := i; j > 0 && out[j] < out[j-1]; j-- {
			out[j], out[j-1] = out[j-1], out[j]
		}
	}
	return out
}

func TestC15(t *testing.T) {
	rec := ev.For("C15", c15Rule)
	rapid.Check(t, func(rt *rapid.T) { c15Prop(rt, rec) })
}

// c15Verify puts, now and then, one of the other events the L1 info syncer watches in front of an info-tree update of the
// same block: a rollup's batch verification, with the exit root of a rollup that has no exits yet (zero) or any other.
func c15Verify(rt *rapid.T, evs []interface{}, num uint64) []interface{} {
	k := rapid.IntRange(0, 5).Draw(rt, "verifyBatchesBeforeTheLeaf")
	if k > 1 {
		return evs
	}
	seq := num*8 + uint64(len(evs))
	er := common.Hash{}
	if k == 1 {
		er = common.Hash{0x55, byte(num), byte(seq), byte(seq >> 8)}
	}
	return append(evs, l1infotreesync.Event{VerifyBatches: &l1infotreesync.VerifyBatches{BlockPosition: uint64(len(evs)), RollupID: uint32(1 + seq%3),
		NumBatch: seq, StateRoot: common.Hash{3}, ExitRoot: er, Aggregator: common.Address{4}}})
}
