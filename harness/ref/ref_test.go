package ref

import (
	"testing"

	"github.com/ethereum/go-ethereum/common"
)

// Self-check of the reference: Frontier and Sparse agree, proofs verify.
func TestRefSelf(t *testing.T) {
	f := &Frontier{}
	s := NewSparse()
	if f.Root() != EmptyRoot || s.Root() != EmptyRoot {
		t.Fatal("empty root")
	}
	// known constant: root of empty depth-32 keccak tree
	if EmptyRoot != common.HexToHash("0x27ae5ba08d7291c96c8cbddcc148bf48a6d68c7974b94356f53754ef6171d757") {
		t.Fatalf("empty root constant %s", EmptyRoot)
	}
	for i := 0; i < 70; i++ {
		l := H2(common.BigToHash(common.Big1), common.BytesToHash([]byte{byte(i)}))
		f.Add(l)
		s.Set(uint32(i), l)
		if f.Root() != s.Root() {
			t.Fatalf("root mismatch at %d", i)
		}
		for j := 0; j <= i; j++ {
			if VerifyProof(s.Get(uint32(j)), s.Proof(uint32(j)), uint32(j)) != f.Root() {
				t.Fatalf("proof %d/%d", j, i)
			}
		}
	}
}
