// Package ref holds reference models written from the Solidity / Agglayer
// specifications (DepositContractBase.sol, PolygonZkEVMBridgeV2.sol,
// PolygonZkEVMGlobalExitRootV2.sol), independently from aggkit's tree code.
package ref

import (
	"encoding/binary"
	"math/big"

	"github.com/ethereum/go-ethereum/common"
	"github.com/ethereum/go-ethereum/crypto"
)

const Height = 32

type Hash = common.Hash

func H2(a, b Hash) Hash { return crypto.Keccak256Hash(a[:], b[:]) }

// Zero[i] is the root of an empty subtree of height i (Zero[0] = 0x00..0).
var Zero = func() [Height + 1]Hash {
	var z [Height + 1]Hash
	for i := 1; i <= Height; i++ {
		z[i] = H2(z[i-1], z[i-1])
	}
	return z
}()

// EmptyRoot is the root of the empty depth-32 tree.
var EmptyRoot = Zero[Height]

// Frontier mirrors DepositContractBase.sol: branch array + deposit count.
type Frontier struct {
	Branch [Height]Hash
	Count  uint64 // number of leaves appended so far
}

// Add mirrors _addLeaf.
func (f *Frontier) Add(leaf Hash) {
	f.Count++
	size := f.Count
	node := leaf
	for h := 0; h < Height; h++ {
		if (size>>h)&1 == 1 {
			f.Branch[h] = node
			return
		}
		node = H2(f.Branch[h], node)
	}
	panic("tree full")
}

// Root mirrors getRoot.
func (f *Frontier) Root() Hash {
	node := Hash{}
	size := f.Count
	cur := Hash{}
	for h := 0; h < Height; h++ {
		if (size>>h)&1 == 1 {
			node = H2(f.Branch[h], node)
		} else {
			node = H2(node, cur)
		}
		cur = H2(cur, cur)
	}
	return node
}

func (f *Frontier) Clone() *Frontier { c := *f; return &c }

// VerifyProof mirrors verifyMerkleProof's root computation.
func VerifyProof(leaf Hash, proof [Height]Hash, index uint32) Hash {
	node := leaf
	for h := 0; h < Height; h++ {
		if (index>>h)&1 == 1 {
			node = H2(proof[h], node)
		} else {
			node = H2(node, proof[h])
		}
	}
	return node
}

// Sparse is a map-backed depth-32 keccak tree (any index may be set).
type Sparse struct {
	leaves map[uint32]Hash
}

func NewSparse() *Sparse { return &Sparse{leaves: map[uint32]Hash{}} }

func (s *Sparse) Set(i uint32, v Hash) { s.leaves[i] = v }
func (s *Sparse) Get(i uint32) Hash    { return s.leaves[i] }
func (s *Sparse) Clone() *Sparse {
	c := NewSparse()
	for k, v := range s.leaves {
		c.leaves[k] = v
	}
	return c
}

// node returns the hash of the subtree of height h whose leftmost leaf is base.
func (s *Sparse) node(level map[uint64]Hash, h int, idx uint64) Hash {
	if v, ok := level[idx]; ok {
		return v
	}
	return Zero[h]
}

// levels computes, bottom-up, the non-zero nodes of every level.
func (s *Sparse) levels() [Height + 1]map[uint64]Hash {
	var lv [Height + 1]map[uint64]Hash
	lv[0] = map[uint64]Hash{}
	for k, v := range s.leaves {
		lv[0][uint64(k)] = v
	}
	for h := 1; h <= Height; h++ {
		lv[h] = map[uint64]Hash{}
		seen := map[uint64]bool{}
		for k := range lv[h-1] {
			p := k >> 1
			if seen[p] {
				continue
			}
			seen[p] = true
			l := s.node(lv[h-1], h-1, p<<1)
			r := s.node(lv[h-1], h-1, p<<1|1)
			lv[h][p] = H2(l, r)
		}
	}
	return lv
}

func (s *Sparse) Root() Hash {
	lv := s.levels()
	return s.node(lv[Height], Height, 0)
}

func (s *Sparse) Proof(i uint32) [Height]Hash {
	lv := s.levels()
	var p [Height]Hash
	idx := uint64(i)
	for h := 0; h < Height; h++ {
		p[h] = s.node(lv[h], h, idx^1)
		idx >>= 1
	}
	return p
}

// BridgeLeaf mirrors PolygonZkEVMBridgeV2.getLeafValue:
// keccak256(abi.encodePacked(uint8 leafType, uint32 originNetwork, address originAddress,
// uint32 destinationNetwork, address destinationAddress, uint256 amount, bytes32 metadataHash)).
func BridgeLeaf(leafType uint8, origNet uint32, origAddr common.Address, destNet uint32,
	destAddr common.Address, amount *big.Int, metadataHash Hash) Hash {
	var b []byte
	b = append(b, leafType)
	b = binary.BigEndian.AppendUint32(b, origNet)
	b = append(b, origAddr[:]...)
	b = binary.BigEndian.AppendUint32(b, destNet)
	b = append(b, destAddr[:]...)
	var a [32]byte
	if amount != nil {
		amount.FillBytes(a[:])
	}
	b = append(b, a[:]...)
	b = append(b, metadataHash[:]...)
	return crypto.Keccak256Hash(b)
}

// L1InfoLeaf mirrors PolygonZkEVMGlobalExitRootV2.getLeafValue:
// keccak256(abi.encodePacked(bytes32 ger, bytes32 lastBlockHash, uint64 timestamp)).
func L1InfoLeaf(ger, prevBlockHash Hash, ts uint64) Hash {
	var b []byte
	b = append(b, ger[:]...)
	b = append(b, prevBlockHash[:]...)
	b = binary.BigEndian.AppendUint64(b, ts)
	return crypto.Keccak256Hash(b)
}

// GER = keccak256(mainnetExitRoot ‖ rollupExitRoot).
func GER(mer, rer Hash) Hash { return H2(mer, rer) }

// GlobalIndex = flag·2^64 + rollup·2^32 + leaf (rollup forced to 0 when flag), the bit
// layout of PolygonZkEVMBridgeV2._GLOBAL_INDEX_MAINNET_FLAG.
func GlobalIndex(mainnet bool, rollup, leaf uint32) *big.Int {
	x := new(big.Int)
	if mainnet {
		x.SetBit(x, 64, 1)
	} else {
		x.Or(x, new(big.Int).Lsh(new(big.Int).SetUint64(uint64(rollup)), 32))
	}
	x.Or(x, new(big.Int).SetUint64(uint64(leaf)))
	return x
}

// SplitGlobalIndex returns the bit fields of a canonical global index.
func SplitGlobalIndex(x *big.Int) (mainnet bool, rollup, leaf uint32) {
	mainnet = x.Bit(64) == 1
	lo := new(big.Int).And(x, new(big.Int).SetUint64(^uint64(0))).Uint64()
	return mainnet, uint32(lo >> 32), uint32(lo)
}
