package harness

import (
	"encoding/json"
	"fmt"
	"math/big"
	"reflect"
	"strings"
	"testing"

	"github.com/0xPolygon/cdk-contracts-tooling/contracts/fep/etrog/polygonzkevmbridge"
	"github.com/0xPolygon/cdk-contracts-tooling/contracts/pp/l2-sovereign-chain/polygonzkevmbridgev2"
	"github.com/agglayer/aggkit/bridgesync"
	"github.com/ethereum/go-ethereum/common"
	"github.com/ethereum/go-ethereum/common/hexutil"
	"github.com/ethereum/go-ethereum/crypto"
	"pgregory.net/rapid"

	"verifharness/choose"
	"verifharness/ev"
	"verifharness/ref"
)

// C20 — claim details are taken only from the matching, non-reverted bridge call.

const c20Rule = "case = call tree from a grammar (depth <=6, fan-out <=4, frames to the bridge or elsewhere, reverted frames anywhere, " +
	"claimAsset/claimMessage calldata of both contract generations packed with the real ABIs, matching and non-matching global " +
	"indexes) served as debug_traceTransaction to the real setClaimCalldata; oracle = recursive specification of 'a live matching " +
	"call' (to the bridge, same global index, neither it nor an ancestor reverted): the recorded details must be those of one such " +
	"frame, or an error with the claim untouched when none exists; non-trivial = tree of depth >=2 with >=1 decoy (reverted " +
	"matching frame, matching frame under a reverted ancestor, or non-matching claim); distinct = hash of the tree shape"

var (
	c20Bridge = common.HexToAddress("0x4444444444444444444444444444444444444444")
	c20Other  = common.HexToAddress("0x5555555555555555555555555555555555555555")
)

type c20Frame struct {
	From     common.Address `json:"from"`
	To       common.Address `json:"to"`
	Value    string         `json:"value,omitempty"`
	Error    *string        `json:"error,omitempty"`
	Input    hexutil.Bytes  `json:"input"`
	Calls    []*c20Frame    `json:"calls,omitempty"`
	Type     string         `json:"type,omitempty"` // as the callTracer reports it: CALL, DELEGATECALL, STATICCALL, CALLCODE, CREATE, CREATE2
	claim    *c20Claim
	reverted bool
}

type c20Claim struct {
	Etrog    bool
	Message  bool
	Index    *big.Int
	Seed     byte
	MER, RER common.Hash
	DestNet  uint32
	Metadata []byte
	ProofLER [32][32]byte
	ProofRER [32][32]byte
}

func c20Pack(c *c20Claim) []byte {
	name := "claimAsset"
	if c.Message {
		name = "claimMessage"
	}
	if c.Etrog {
		a, err := polygonzkevmbridgev2.Polygonzkevmbridgev2MetaData.GetAbi()
		if err != nil {
			panic(err)
		}
		b, err := a.Pack(name, c.ProofLER, c.ProofRER, c.Index, [32]byte(c.MER), [32]byte(c.RER), uint32(3), common.HexToAddress("0x77"),
			c.DestNet, common.HexToAddress("0x88"), big.NewInt(int64(c.Seed)), c.Metadata)
		if err != nil {
			panic(err)
		}
		return b
	}
	a, err := polygonzkevmbridge.PolygonzkevmbridgeMetaData.GetAbi()
	if err != nil {
		panic(err)
	}
	b, err := a.Pack(name, c.ProofLER, uint32(c.Index.Uint64()), [32]byte(c.MER), [32]byte(c.RER), uint32(3), common.HexToAddress("0x77"),
		c.DestNet, common.HexToAddress("0x88"), big.NewInt(int64(c.Seed)), c.Metadata)
	if err != nil {
		panic(err)
	}
	return b
}

type c20Gen struct {
	ch      choose.Chooser
	target  *big.Int
	etrogEv bool
	seed    byte
	frames  int

	forceMatch bool // the next claim carries the event's index (when its ABI generation can)
	wide       bool // the tree holds a frame with more than a thousand calls
}

func (g *c20Gen) claim() *c20Claim {
	g.seed++
	c := &c20Claim{Seed: g.seed, Message: g.ch.Bool("msg"), DestNet: uint32(g.ch.Int(0, 5, "destNet"))}
	c.Etrog = g.etrogEv
	if g.ch.Int(0, 5, "otherGeneration") == 0 {
		c.Etrog = !c.Etrog
	}
	match := g.forceMatch || g.ch.Int(0, 2, "match") != 0
	switch {
	case match && c.Etrog:
		c.Index = new(big.Int).Set(g.target)
	case match && !c.Etrog:
		if g.target.BitLen() <= 32 {
			c.Index = new(big.Int).Set(g.target)
		} else {
			c.Index = big.NewInt(int64(g.seed)) // cannot match: the old contract's index is a uint32
		}
	case c.Etrog:
		// a different global index: a small offset, or the same low bits with another mainnet flag / rollup index
		// (the fields above bit 31 matter as much as the leaf index)
		switch g.ch.Int(0, 3, "decoyKind") {
		case 0:
			c.Index = new(big.Int).Add(g.target, big.NewInt(int64(1+g.ch.Int(0, 3, "off"))))
		case 1:
			c.Index = new(big.Int).Xor(g.target, new(big.Int).Lsh(big.NewInt(1), 64)) // other mainnet flag, same rollup and leaf
		case 2:
			c.Index = new(big.Int).Xor(g.target, new(big.Int).Lsh(big.NewInt(int64(1+g.ch.Int(0, 2, "rollupOff"))), 32)) // other rollup index
		default:
			c.Index = new(big.Int).Xor(g.target, new(big.Int).Lsh(big.NewInt(1), uint(65+g.ch.Int(0, 100, "highBit")))) // differs only in a high bit
		}
	default:
		c.Index = big.NewInt(int64(100000 + int(g.seed)))
		if g.target.BitLen() > 32 && g.ch.Int(0, 1, "lowBitsDecoy") == 0 {
			// an old-generation call whose 32-bit index equals the low bits of the event's (wider) global index: it is
			// a different claim (the mainnet flag / rollup index differ)
			c.Index = new(big.Int).And(g.target, big.NewInt(0xffffffff))
		}
		if c.Index.Cmp(g.target) == 0 {
			c.Index.Add(c.Index, big.NewInt(1))
		}
	}
	c.MER = crypto.Keccak256Hash([]byte{c.Seed, 1})
	c.RER = crypto.Keccak256Hash([]byte{c.Seed, 2})
	for i := 0; i < 32; i++ {
		c.ProofLER[i] = crypto.Keccak256Hash([]byte{c.Seed, 3, byte(i)})
		c.ProofRER[i] = crypto.Keccak256Hash([]byte{c.Seed, 4, byte(i)})
	}
	// lengths around the sizes where the calldata reaches fixed offsets of the other ABI generation (a claim call has one or
	// two 32x32-byte proofs in front of its remaining arguments)
	ml := choose.Pick(g.ch, []int{0, 1, 32, 100, 100, 704, 705, 736, 1400, 2100}, "metaLen")
	c.Metadata = make([]byte, ml)
	for i := range c.Metadata {
		c.Metadata[i] = c.Seed + byte(i)
	}
	return c
}

func (g *c20Gen) frame(depth int, root bool) *c20Frame {
	g.frames++
	f := &c20Frame{From: common.BytesToAddress([]byte{0xf0, byte(g.frames)}), To: c20Other, Input: hexutil.Bytes{0xde, 0xad, 0xbe, 0xef}, Value: "0x0"}
	if g.ch.Int(0, 9, "toBridge") < 4 {
		f.To = c20Bridge
		f.claim = g.claim()
		f.Input = c20Pack(f.claim)
		f.Type = choose.Pick(g.ch, []string{"", "CALL", "CALL"}, "bridgeFrameType")
	} else {
		// intermediate frames can be of any kind: a claim made through a proxy-based account runs below a DELEGATECALL, a
		// contract created in the transaction can claim from its constructor
		f.Type = choose.Pick(g.ch, []string{"", "CALL", "CALL", "DELEGATECALL", "CALLCODE", "CREATE", "CREATE2"}, "frameType")
	}
	revertP := 2
	if root {
		revertP = 0
		if g.ch.Int(0, 19, "rootReverted") == 0 {
			revertP = 10
		}
	}
	if g.ch.Int(0, 9, "reverted") < revertP {
		// the callTracer reports any VM failure of a frame in its "error" field, a revert is only one of them
		e := choose.Pick(g.ch, []string{"execution reverted", "execution reverted", "out of gas", "invalid opcode: INVALID", "stack limit reached 1024 (1023)",
			"write protection", "invalid jump destination", "max code size exceeded", "contract creation code storage out of gas", "x"}, "frameError")
		f.Error = &e
		f.reverted = true
	}
	if depth > 0 && g.frames < 40 {
		n := choose.Pick(g.ch, []int{0, 0, 1, 1, 2, 3, 4}, "fanout")
		for i := 0; i < n; i++ {
			f.Calls = append(f.Calls, g.frame(depth-1, false))
		}
	}
	if root && g.ch.Int(0, 59, "wideBatch") == 0 {
		// a batch transaction: one frame makes more calls than the EVM's depth limit (fan-out is not bounded by it); the call
		// that matches the event is one of them
		w := choose.Pick(g.ch, []int{1023, 1024, 1025, 1026, 1100, 2100}, "batchWidth")
		at := choose.Pick(g.ch, []int{0, 1, w / 2, 1022, 1023, 1024, w - 2, w - 1}, "matchingCallAt")
		for i := 0; i < w; i++ {
			g.frames++
			c := &c20Frame{From: common.BytesToAddress([]byte{0xf1, byte(i >> 8), byte(i)}), To: c20Other, Input: hexutil.Bytes{0xde, 0xad, 0xbe, 0xef}, Value: "0x0", Type: "CALL"}
			if i == at {
				g.forceMatch = true
				c.To, c.claim = c20Bridge, g.claim()
				c.Input = c20Pack(c.claim)
				g.forceMatch = false
			}
			f.Calls = append(f.Calls, c)
		}
		g.wide = true
	}
	return f
}

// c20Live is the specification: all frames addressed to the bridge whose index equals the event's, not reverted and
// without a reverted ancestor.
func c20Live(f *c20Frame, target *big.Int, ancestorReverted bool, out *[]*c20Frame, decoys *int, depth int, maxDepth *int) {
	if depth > *maxDepth {
		*maxDepth = depth
	}
	dead := ancestorReverted || f.reverted
	if f.claim != nil {
		if f.claim.Index.Cmp(target) == 0 {
			if dead {
				*decoys++
			} else {
				*out = append(*out, f)
			}
		} else {
			*decoys++
		}
	}
	for _, c := range f.Calls {
		c20Live(c, target, dead, out, decoys, depth+1, maxDepth)
	}
}

type c20RPC struct{ trace []byte }

func (r *c20RPC) Call(result any, method string, args ...any) error {
	if method != "debug_traceTransaction" {
		return fmt.Errorf("unexpected rpc %s", method)
	}
	return json.Unmarshal(r.trace, result)
}

func c20Matches(c *bridgesync.Claim, f *c20Frame) bool {
	cl := f.claim
	for i := 0; i < 32; i++ {
		if c.ProofLocalExitRoot[i] != common.Hash(cl.ProofLER[i]) {
			return false
		}
		if cl.Etrog && c.ProofRollupExitRoot[i] != common.Hash(cl.ProofRER[i]) {
			return false
		}
	}
	return c.MainnetExitRoot == cl.MER && c.RollupExitRoot == cl.RER && c.GlobalExitRoot == ref.GER(cl.MER, cl.RER) &&
		c.DestinationNetwork == cl.DestNet && string(c.Metadata) == string(cl.Metadata) && c.IsMessage == cl.Message && c.FromAddress == f.From
}

// c20Check builds a tree from the chooser, runs the real extraction and applies the oracle.
func c20Check(ch choose.Chooser) (err error, nontrivial bool, shape string, sample any) {
	g := &c20Gen{ch: ch}
	g.etrogEv = ch.Int(0, 3, "etrogEvent") != 0
	if g.etrogEv {
		g.target = ref.GlobalIndex(ch.Bool("mainnet"), uint32(ch.Int(0, 3, "rollup")), uint32(ch.Int(0, 70000, "leaf")))
	} else {
		g.target = big.NewInt(int64(ch.Int(0, 70000, "index")))
	}
	root := g.frame(ch.Int(0, 6, "depth"), true)
	var live []*c20Frame
	decoys, maxDepth := 0, 0
	c20Live(root, g.target, false, &live, &decoys, 0, &maxDepth)
	trace, e := json.Marshal(root)
	if e != nil {
		panic(e)
	}
	claim := &bridgesync.Claim{BlockNum: 5, BlockPos: 1, GlobalIndex: new(big.Int).Set(g.target), OriginNetwork: 3,
		OriginAddress: common.HexToAddress("0x77"), DestinationAddress: common.HexToAddress("0x88"), Amount: big.NewInt(1),
		FromAddress: common.HexToAddress("0xeeee")}
	before := *claim
	callErr := bridgesync.VerifSetClaimCalldata(claim, &c20RPC{trace: trace}, c20Bridge, common.HexToHash("0xabc"))
	shape = fmt.Sprintf("etrog=%v frames=%d depth=%d live=%d decoys=%d wide=%v trace=%x", g.etrogEv, g.frames, maxDepth, len(live), decoys, g.wide, crypto.Keccak256(trace)[:6])
	nontrivial = maxDepth >= 2 && decoys >= 1
	sample = map[string]any{"event_global_index": "0x" + g.target.Text(16), "frames": g.frames, "depth": maxDepth, "live_matching_frames": len(live), "decoys": decoys, "root_reverted": root.reverted}
	if len(live) == 0 {
		if callErr == nil {
			return fmt.Errorf("no live matching call in the transaction (%s) but no error was raised; recorded MER %s from %s", shape, claim.MainnetExitRoot, claim.FromAddress), nontrivial, shape, sample
		}
		if !reflect.DeepEqual(*claim, before) {
			return fmt.Errorf("no live matching call (%s): error raised (%v) but claim details were recorded anyway: MER %s sender %s", shape, callErr, claim.MainnetExitRoot, claim.FromAddress), nontrivial, shape, sample
		}
		return nil, nontrivial, shape, sample
	}
	if callErr != nil {
		return fmt.Errorf("a live matching call exists (%s) but extraction failed: %v", shape, callErr), nontrivial, shape, sample
	}
	for _, f := range live {
		if c20Matches(claim, f) {
			return nil, nontrivial, shape, sample
		}
	}
	return fmt.Errorf("recorded claim details (MER %s, sender %s, isMessage %v) are not those of any live matching call (%s)", claim.MainnetExitRoot, claim.FromAddress, claim.IsMessage, shape), nontrivial, shape, sample
}

func TestC20(t *testing.T) {
	rec := ev.For("C20", c20Rule)
	rec.Assume("every call addressed to the bridge in the transaction is a claim call (the stated domain)")
	rapid.Check(t, func(rt *rapid.T) {
		err, nt, shape, sample := c20Check(choose.Rapid{T: rt})
		rec.Case(nt, shape)
		if strings.Contains(shape, "wide=true") {
			rec.Class("trees_with_a_frame_of_more_than_a_thousand_calls")
		}
		if nt && rec.WantSample() {
			rec.Sample(sample)
		}
		if err != nil {
			rt.Fatalf("%v", err)
		}
	})
}

func FuzzC20(f *testing.F) {
	f.Add([]byte{1, 0, 0, 1, 2, 3, 4, 5, 6, 7, 8, 9, 10})
	f.Add([]byte{0, 5, 200, 6, 3, 1, 1, 1, 0, 9, 9, 3, 3, 3, 2, 2, 2, 1, 1, 1, 0, 0, 0, 4, 4, 4})
	f.Add([]byte{3, 1, 2, 255, 255, 6, 0, 0, 0, 0, 1, 1, 1, 1, 2, 2, 2, 2, 3, 3, 3, 3, 4, 4, 4, 4, 5, 5, 5, 5})
	f.Fuzz(func(t *testing.T, data []byte) {
		if err, _, _, _ := c20Check(&choose.Bytes{Data: data}); err != nil {
			t.Fatalf("%v", err)
		}
	})
}
