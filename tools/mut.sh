#!/bin/bash
# usage: tools/mut.sh <check-id> <file-relative-to-/repo> <python-regex-or-literal-old> <new>   (literal replace, first occurrence)
# applies the mutation to /repo, runs the quick check, reverts. Prints the verdict.
set -u
id=$1; f=$2; old=$3; new=$4
cd /repo
if [ -n "$(git status --porcelain)" ]; then echo "repo dirty, abort"; exit 3; fi
python3 - "$f" "$old" "$new" <<'PY'
import sys
f,old,new=sys.argv[1:4]
s=open(f).read()
if old not in s:
    print("MUT: pattern not found"); sys.exit(4)
open(f,'w').write(s.replace(old,new,1))
PY
rc=$?
if [ $rc -ne 0 ]; then git checkout -- .; exit $rc; fi
git diff --stat | tail -1
cd /verif
rm -rf /tmp/ev.bak.$$; cp -r evidence /tmp/ev.bak.$$ 2>/dev/null
VERIF_SEED=${VERIF_SEED:-7} timeout 1200 ./check $id --tier quick > /tmp/mut.$$.log 2>&1
rc=$?
grep -E "^(VIOLATION|OK|INCONCLUSIVE|KNOWN-FINDING)" /tmp/mut.$$.log | head -5
echo "exit=$rc"
[ $rc -eq 2 ] && tail -30 /tmp/mut.$$.log
rm -f /tmp/mut.$$.log
git -C /repo checkout -- .
# never leave a replay produced by a mutant behind
git -C /verif status --porcelain replays 2>/dev/null | awk '{print $2}' | xargs -r rm -rf
rm -rf /verif/evidence; mv /tmp/ev.bak.$$ /verif/evidence 2>/dev/null
exit 0
