#!/bin/bash
# usage: tools/seedtest.sh <seed-name> <check-id> [<check-id>...]
# Applies a seeded change (the working-tree diff of the sub-agent's worktree $SEEDROOT/<name>, or, with FROMSTORE=1 or when
# that worktree is gone, /verif/seeded/$STORE/patch.diff) to a scratch worktree of /repo's HEAD outside /repo and /verif,
# runs the quick checks against that worktree (VERIF_ALT_REPO: /repo and the evidence files are not touched), removes it.
set -u
name=$1; shift
root=${SEEDROOT:-/tmp/seed}; store=${STORE:-$name}
if [ -d $root/$name ] && [ -z "${FROMSTORE:-}" ]; then
  git -C $root/$name diff > $root/$name.patch
  patch=$root/$name.patch
else
  patch=/verif/seeded/$store/patch.diff
fi
wt=/var/tmp/verif-mut-$$
git -C /repo worktree add --detach -q $wt HEAD || exit 3
trap 'git -C /repo worktree remove --force '$wt' 2>/dev/null; rm -rf '$wt' /tmp/seedtest.'$$'.log' EXIT
git -C $wt apply $patch || { echo "patch does not apply"; exit 4; }
git -C $wt diff --stat | tail -1
cd /verif
for id in "$@"; do
  VERIF_ALT_REPO=$wt VERIF_SEED=${VERIF_SEED:-7} timeout 2400 ./check $id --tier quick > /tmp/seedtest.$$.log 2>&1
  rc=$?
  echo "== $store vs $id: exit=$rc $(grep -E '^(VIOLATION|OK|INCONCLUSIVE)' /tmp/seedtest.$$.log | head -2 | tr '\n' ' ')"
  grep -v 'rapid\] draw' /tmp/seedtest.$$.log | grep -E "failed after|Original traceback" | cut -c1-500 | head -2
done
rm -rf /verif/replays
