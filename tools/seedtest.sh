#!/bin/bash
# usage: tools/seedtest.sh <seed-dir-name> <check-id> [<check-id>...]
# Takes the source change of /tmp/seed/<name> (or /verif/seeded/<name>/patch.diff), applies it to /repo, runs the quick checks, reverts.
set -u
name=$1; shift
root=${SEEDROOT:-/tmp/seed}; store=${STORE:-$name}
if [ -d $root/$name ] && [ -z "${FROMSTORE:-}" ]; then
  git -C $root/$name diff > $root/$name.patch
  patch=$root/$name.patch
else
  patch=/verif/seeded/$store/patch.diff
fi
cd /repo
if [ -n "$(git status --porcelain)" ]; then echo "repo dirty, abort"; exit 3; fi
git apply $patch || { echo "patch does not apply"; exit 4; }
git diff --stat | tail -1
cd /verif
rm -rf /tmp/ev.bak.$$; cp -r evidence /tmp/ev.bak.$$ 2>/dev/null
for id in "$@"; do
  VERIF_SEED=${VERIF_SEED:-7} timeout 2400 ./check $id --tier quick > /tmp/seedtest.$$.log 2>&1
  rc=$?
  echo "== $name vs $id: exit=$rc $(grep -E '^(VIOLATION|OK|INCONCLUSIVE)' /tmp/seedtest.$$.log | head -2 | tr '\n' ' ')"
  grep -v 'rapid\] draw' /tmp/seedtest.$$.log | grep -E "failed after|Original traceback" | cut -c1-500 | head -2
done
rm -f /tmp/seedtest.$$.log
git -C /repo checkout -- .
rm -rf /verif/replays
rm -rf /verif/evidence; mv /tmp/ev.bak.$$ /verif/evidence 2>/dev/null
