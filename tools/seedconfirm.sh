#!/bin/bash
# usage: tools/seedconfirm.sh <name> <property> "<pkgs for existing tests>" "<what it needs>" "<checks that catch it>"
# Confirms a sub-agent's seeded change in its scratch worktree /tmp/seed/<name> and stores it under /verif/seeded/<name>/.
set -u
root=${SEEDROOT:-/tmp/seed}; store=${STORE:-$1}
name=$1; prop=$2; pkgs=$3; needs=$4; caught=$5
wt=$root/$name
export GOFLAGS=-mod=mod GOPROXY=off
cd $wt || exit 1
demo=$(git status --porcelain | grep '^??' | awk '{print $2}' | grep -E 'zz_seed.*_test.go$' | head -1)
demopkg=./$(dirname $demo)
echo "demo: $demo"
git diff > $root/$name.patch
b=$(go build ./... 2>&1 | tail -3); echo "build: ${b:-ok}"
t1=$(go test -vet=off -count=1 -skip 'SeedDemo|TestBridgeCallData|TestClaimCalldata|TestWithReorgs' $pkgs 2>&1 | grep -E "^(FAIL|---)" | head -5); echo "existing tests with change (docker-dependent tests and the baseline-flaky TestWithReorgs skipped): ${t1:-all ok}"
d1=$(go test -vet=off -count=1 -run 'SeedDemo' $demopkg 2>&1 | grep -E "^(ok|FAIL|--- FAIL)" | head -3 | tr '\n' ' '); echo "demo with change: $d1"
git apply -R $root/$name.patch
d2=$(go test -vet=off -count=1 -run 'SeedDemo' $demopkg 2>&1 | grep -E "^(ok|FAIL|--- FAIL)" | head -3 | tr '\n' ' '); echo "demo without change: $d2"
git apply $root/$name.patch
mkdir -p /verif/seeded/$store
cp $root/$name.patch /verif/seeded/$store/patch.diff
cp $demo /verif/seeded/$store/$(basename $demo).txt
cp SEED_NOTES.md /verif/seeded/$store/SEED_NOTES.md 2>/dev/null
python3 - "$store" "$prop" "$needs" "$caught" "${b:-ok}" "${t1:-all ok}" "$d1" "$d2" "$demo" <<'PY'
import json,sys
name,prop,needs,caught,b,t1,d1,d2,demo=sys.argv[1:10]
json.dump({"id":name,"breaks_property":prop,"written_by":"independent sub-agent given only the property text and a scratch worktree",
 "needs_to_manifest":needs,"demo_file":demo+" (stored as "+demo.split('/')[-1]+".txt)",
 "confirmed_in_scratch_worktree":{"go build ./...":b,"existing tests of the touched packages with the change (docker-dependent tests and the baseline-flaky l1infotreesync TestWithReorgs skipped)":t1,"demo with the change":d1.strip(),"demo without the change":d2.strip()},
 "checks_run_against_it":caught},open('/verif/seeded/%s/meta.json'%name,'w'),indent=1)
PY
echo "stored /verif/seeded/$store"
