# generates the sub-agent briefs of a seeded-change round (edit the round letter / root below); ONLY="C01 C04" limits the properties
mkdir -p /tmp/seed10 && cd /tmp/seed10 && python3 - <<'PY'
import json,subprocess,os
used={
"C01":"initCache (three variants); storeNodes duplicates; AddLeaf rollback callback; column type of root.block_position; Bridge.Hash for 32-byte metadata; BlockPos from the transaction index; metadata hash memoised per token; BigIntMeddler decimal fast path through int64",
"C02":"RetryCount storage (two variants); to_block of a recovered certificate; Range dropping claims; previous exit root stored for a replacement; SaveLastSentCertificate early return for an equal id; overlapping chunks in GetBridgesAndClaims; stored ToBlock of a replacement capped at the replaced one; claims de-duplicated by a global index computed without the mainnet flag",
"C03":"guard in getNewLocalExitRoot; Range; InError fallback in getNextHeightAndPreviousLER; convertBridgeMetadata for 32 bytes; DecodeGlobalIndex mutating its argument; TokenInfo shared by origin address; previous exit root stored for a replacement; exit-root lookup memoised in the bridge querier; GetBridges/GetClaims read in pages of 1000 rows",
"C04":"foreign key on legacy_token_migration; swallowed error of rollupExitTree.Reorg; storeNodes duplicates / node order; foreign_keys pragma outside the DSN; initCache guard at a power-of-two leaf count; delete-before-insert of an equal (GER,index) row; GetRootByIndex memoised; Tree.Reorg deleting the rht nodes on the dropped leaves' paths",
"C05":"empty-block marker condition; Removed filter order; GetLogs range narrowing; GetBlockHeader and DeadlineExceeded; appender retry flag; flattened switch in the unsafe-zone branch; succeed pre-set for finalized blocks; stale grouping cursor in the hash-mismatch retry; claim appended to the block before its trace RPC",
"C06":"dropping tracked blocks <= finalized without comparing hashes; ORDER BY of the tracked-block loading query; handleReorg acknowledging on cancelled ctx; notifySubscriber giving up early; finalized block queried after the logs; Subscribe resetting an existing tracked list; finalizedBlockType tag in NewEVMDownloader; removeTrackedBlockRange without subscriber filter; header-cache lock not released on an RPC error in detectReorgInTrackedList",
"C07":"AddLeaf rollback callback variants; storeNodes error handling (three variants); AddLeaf error latching the halt flag; Commit swallowing sql.ErrTxDone; shadowed err in the RemoveLegacyToken branch; L1 info processor returning ErrInconsistentState for a failed AddLeaf; !isNewLeaf tested before err in processVerifyBatches; cache rebuilt only when marked uninitialised + Tx.Commit marking 'committed' before success",
"C08":"storeNodes duplicates; getLastRoot ORDER BY; getRHTNode error mapping; initCache level loop; last-root cache in UpdatableTree; pruning rht rows on Reorg; unchanged-check outside the transaction; GetProof memoisation; GetLeaf treating an empty-subtree hash as 'not set'",
"C09":"tie-breaking of the latest-info query; PP retry reusing the L1 info root; cache inside GetProofForGER; leaf/proof reuse for consecutive claims; message flag in tryDecodeClaimCalldata; storeNodes duplicates; index comparison truncated in decodeEtrogCalldata; hash check skipped in getLatestProcessedFinalizedBlock; convertBridgeMetadata leaving 32-byte metadata unhashed",
"C10":"FEPHashToSign buffer aliasing (three variants); reuse of a stored FEP signature; GlobalIndex.Hash byte layout; signed_certificate not rewritten on a same-id re-save; GER-keyed proof cache in the wire conversion; AggchainDataSelector.UnmarshalJSON requiring a non-empty proof; wire global index encoded directly from the fields",
"C11":"unchanged-check in processVerifyBatches; zero/empty-root skip; lower batch numbers dropped; unique index on verify_batches(rollup_id, exit_root); storeNodes error handling; getLastRoot ORDER BY; foreign_keys pragma outside the DSN; GetLeaf stopping at an empty subtree",
"C12":"fallback initialisation in the binary search; storeNodes; getLastRoot ORDER BY; amount truncation in Bridge.Hash; GetRootByLER for the zero hash; not-found fallback in getFirstL1InfoTreeIndexForL2Bridge; empty-tree root skipped in processVerifyBatches; served L1 info leaves memoised in the bridge service; RHT look-up cache that remembers misses",
"C13":"CASE 3.3 condition; retry count of an adopted certificate; to_block of a recovered certificate; metadata Offset width; previous exit root dropped when adopting an InError header; SaveLastSentCertificate split into auto-commit statements; UpdateCertificateStatus refusing to leave a closed status; nullableBytesToHash returning a zero hash for an absent value; replaced certificate deleted only when the history is kept",
"C14":"UnhaltIfAffectedRows condition; halted L1 info syncer accepting event-less blocks; initCache outside the transaction; AddLeaf error not wrapped for backward indexes; UnhaltIfAffectedRows deferred inside Reorg; empty-range shortcut above the halt guard; uint32 helper wrapping the cache sentinel in AddLeaf; tree cache snapshot restored on rollback in registration order",
"C15":"sticky block reset; tie-breaking of the latest-info query; translateError; clamping of the sampled finalized block; 'last checked GER' shortcut; memoised / primary-key / unsynchronised fast-path variants of the block-processed guard in GetLatestInfoUntilBlock; foreign_keys pragma only on the first pooled connection in NewSQLiteDB",
"C16":"PP downloader start argument; skipping a GER whose L1 info leaf is not synced; clamp min(finalized,toBlock); FEP downloader loop termination; PP downloader cursor; skipping insertions below the highest stored index; chunked GetLogs; hash-mismatch retry restarting from the mismatching block; numeric comparison of RPC block tags in lastgersync.New",
"C17":"comparison operator in limitCertSize; comparison in MaxL2BlockNumberLimiter; shortcut in Range; overflow in Gap; 'skip trailing empty blocks' jump; halving step; BlockRange.Contains treating {0,0} as empty; last size cut memoised by block range; block count derived from the 32-bit metadata offset",
"C18":"statement order in step; integer truncation of the percentage; floating-point threshold; waitingForEpoch++; percentage 0 treated as unset; subscriptions keyed by name; blocks more than 10^6 ahead dropped; threshold test in whole blocks with an overflowing product",
"C19":"byte-length test in DecodeGlobalIndex; buffer reuse in FEPHashToSign; truncation in the optimistic commitment; buffer reuse in the prover request conversion; int64 conversion in GenerateGlobalIndex; direct little-endian layout keeping rollup bits; DecodeGlobalIndex masking its argument; dedupe key ignoring the mainnet flag in getImportedBridgeExitsForProver; wire global index through the optional-metadata helper (empty = unset)",
"C20":"index comparison truncated to 64 bits (two variants); searching children of a reverted bridge frame; message flag set by a non-matching call; only 'revert' error texts count as reverted; pooled trace frame not reset; trace cached by transaction hash; Etrog-offset peek applied to pre-Etrog calldata; findCall looking at frames of type CALL only",
}
tm=open('/verif/seeded/C01h/SEED_NOTES.md').read() if False else None
ONLY=os.environ.get('ONLY','').split()
for l in open('/verif/properties.jsonl'):
    d=json.loads(l); pid=d['id']; name=pid+'j'
    if ONLY and pid not in ONLY: continue
    wt='/tmp/seed10/'+name
    subprocess.check_call(['git','-C','/repo','worktree','add','--detach','-q',wt,'HEAD'])
    brief=f"""# Task brief ({name})

You are working in a scratch git worktree of the Go repository agglayer/aggkit at `{wt}` (and ONLY there: do not
read or write `/verif`, `/repo`, or any other directory under `/tmp/seed10`; other people work there).
AggKit is a Go node that syncs EVM bridge and L1-info-tree events into SQLite Merkle trees, handles reorgs, and builds
and signs certificates for the Agglayer.

Here is one semantic property the code base is supposed to satisfy (JSON, with the code it is anchored in):

```json
{json.dumps(d,indent=1)}
```

## What to produce

Make ONE small, realistic change to the non-test Go code (or SQL migrations / SQL queries) of the repository that **breaks this
property** — the kind of slip a maintainer could make in a refactoring, optimisation or "clean-up" and a reviewer could wave
through — such that:

1. `go build ./...` still succeeds and the **existing** tests of every package you touched still pass
   (`go test -vet=off -count=1 ./<pkg>/...`; tests named TestBridgeCallData / TestClaimCalldata need docker and
   l1infotreesync's TestWithReorgs is flaky at this commit: ignore those three).
2. The property is violated only when something **specific** happens, and that something lies inside what the property's
   own statement quantifies over (read it carefully). A strong randomised test-suite with reference models already guards this
   property. It generates random event histories with special constants and repeated values, block partitions, restarts (also
   with changed configuration), reorgs and forks between two RPCs, storage faults at every statement, failing reads, cancelled
   and abandoned requests, concurrent queries, RPC errors and timeouts, retries that are byte-identical, long quiet stretches,
   out-of-order indexes. Think about what such a suite would STILL be *unlikely to produce* or its hand-written model *likely
   to get wrong*:
   - a value that has to coincide with another one, or with a constant the code treats specially, or that collides only after
     truncation / normalisation / case folding / hex or decimal formatting / integer-width conversion;
   - a precise order, position or count (the N-th occurrence, an exact boundary of a range / chunk / page / epoch / batch size,
     an event at log index 0 or at the last position of a block, two kinds of event interleaved in one transaction);
   - state that survives where it should not, or is lost where it should survive (restart, reorg, retry, failed attempt,
     second instance, reused object, cached result, pooled connection);
   - time-of-check/time-of-use between two RPCs, two SQL statements or two goroutines;
   - a legitimately misbehaving dependency at one precise call;
   - an operator or client action (restart, changed configuration value, cancelled request, concurrent requests, paging
     parameters at their limits);
   - two cooperating edits in different functions or packages that each look harmless alone.
3. It is different from changes that have been tried before for this property. Already used (do NOT repeat these sites or
   mechanisms): {used[pid]}. Prefer code that the anchored files *call* or depend on (helpers, db layer, type conversions,
   config defaults, SQL, pagination), or a different mechanism in the anchored files. Avoid triggers that need an L2 reorg
   underneath a certificate that has not settled, or a particular goroutine interleaving inside one function call.

Then write a **demonstration**: a Go test file named `zz_seed_demo_test.go` placed in the package where it is most natural
(test function names must contain `SeedDemo`), which **fails with your change and passes without it** (check both:
`git diff > /tmp/seed10/{name}.p; git apply -R /tmp/seed10/{name}.p; ...; git apply /tmp/seed10/{name}.p`). The demonstration
should show the property being violated from the outside as far as practical (through exported or package-level entry
points, real SQLite stores in `t.TempDir()`, mocks that already exist in the repository), not merely assert on the line you
edited.

Finally write `SEED_NOTES.md` at the root of the worktree: the change (diff excerpt), why it breaks the property, exactly
what is needed for it to manifest, why existing tests do not notice, and the commands you ran with their outcomes.

Leave the worktree with your change **applied** (uncommitted, do not `git commit`; if you add a new file, `git add -N` it so
that `git diff` shows it), `zz_seed_demo_test.go` and `SEED_NOTES.md` untracked. Do not modify existing test files. Files
named `verif_export.go` (build tag `verif`) are test hooks: ignore them, do not change them and do not use them.

## Environment

No network. Before every go command: `export GOFLAGS=-mod=mod GOPROXY=off` (do NOT set GOSUMDB). The right Go toolchain
(1.24.4) is picked automatically. First build takes about a minute. If `go` rewrote `go.mod`/`go.sum`, restore them with
`git checkout go.mod go.sum`. Use at most 4 parallel test processes (`-p 4`); the machine is shared and very busy, so a test
that depends on wall-clock timing needs generous timeouts. Set `TMPDIR` to a directory next to your worktree
(`export TMPDIR=/tmp/seed10/{name}.tmp; mkdir -p $TMPDIR`) and remove it when done.

Budget: aim to be finished within 35 minutes; a simple change with a clean demonstration beats an elaborate one.

When you are done, answer with: the file(s)/function(s) changed, a three-line description of what is needed to manifest,
and the two demo outcomes (with / without the change).
"""
    open(wt+'/BRIEF.md','w').write(brief)
print(len(os.listdir('/tmp/seed10')))
PY